// Driver for C04 / C05 (TStateView as a checkpointed, scoped key-value map) and C40 (size-suffixed
// keys; see keys_test.go).  Drives the real state/tstate, state.Keys and keys packages of /repo.
package tstate

import (
	"bytes"
	"context"
	"encoding/json"
	"errors"
	"fmt"
	"math/rand"
	"sort"
	"strings"
	"testing"

	"github.com/ava-labs/avalanchego/database"

	"github.com/ava-labs/hypersdk/chain"
	"github.com/ava-labs/hypersdk/chain/chaintest"
	"github.com/ava-labs/hypersdk/codec"
	"github.com/ava-labs/hypersdk/state"
	"github.com/ava-labs/hypersdk/state/tstate"
	"github.com/ava-labs/hypersdk/verifharness/emit"
)

// ---------------------------------------------------------------------------- input format

type kv struct {
	K []byte `json:"k"`
	V []byte `json:"v"`
}

type decl struct {
	K []byte `json:"k"`
	P byte   `json:"p"`
}

type scopeSpec struct {
	Kind  string `json:"kind"` // "all" | "add" | "raw" | "tx"
	Decls []decl `json:"decls,omitempty"`
	// kind "tx": the scope is computed by chain.Transaction.StateKeys from one declaration group per
	// action plus a last group for the sponsor (no key twice inside one group)
	Groups [][]decl `json:"groups,omitempty"`
}

// flat returns the declarations in the order Transaction.StateKeys folds them (up to the order
// inside one action, which cannot matter: keys of one group are distinct).
func (sp scopeSpec) flat() []decl {
	if sp.Kind != "tx" {
		return sp.Decls
	}
	var out []decl
	for _, g := range sp.Groups {
		out = append(out, g...)
	}
	return out
}

type txBH struct{ keys state.Keys }

func (b txBH) SponsorStateKeys(codec.Address) state.Keys { return b.keys }
func (txBH) CanDeduct(context.Context, codec.Address, state.Immutable, uint64) error { return nil }
func (txBH) Deduct(context.Context, codec.Address, state.Mutable, uint64) error     { return nil }
func (txBH) AddBalance(context.Context, codec.Address, state.Mutable, uint64) error { return nil }
func (txBH) GetBalance(context.Context, codec.Address, state.Immutable) (uint64, error) {
	return 0, nil
}

type hop struct {
	Op string `json:"op"` // "get" | "ins" | "rem" | "rb"
	K  []byte `json:"k,omitempty"`
	V  []byte `json:"v,omitempty"`
	N  int    `json:"n,omitempty"`
}

type seg struct {
	Scope  scopeSpec `json:"scope"`
	Hist   []hop     `json:"hist"`
	Commit bool      `json:"commit"`
}

type input struct {
	Base []kv     `json:"base"`
	Univ [][]byte `json:"univ"`
	Segs []seg    `json:"segs"`
}

// ---------------------------------------------------------------------------- observations

type ires struct {
	Kind string `json:"kind"` // "val" | "err" | "ok"
	V    []byte `json:"v,omitempty"`
	C    int    `json:"c,omitempty"`
}

type oval struct {
	Exists bool   `json:"e"`
	V      []byte `json:"v,omitempty"`
}

type stepObs struct {
	Res  ires   `json:"res"`
	Idx  int    `json:"idx"`
	Pend int    `json:"pend"`
	Vis  []oval `json:"vis"`
}

type kn struct {
	K []byte `json:"k"`
	N uint16 `json:"n"`
}

type kov struct {
	K []byte `json:"k"`
	V oval   `json:"v"`
}

type segObs struct {
	ScopeOK bool      `json:"scope_ok"`
	Vis0    []oval    `json:"vis0"`
	Steps   []stepObs `json:"steps"`
	Allocs  []kn      `json:"allocs"`
	Writes  []kn      `json:"writes"`
	Changed []kov     `json:"changed"`
	TSOps   int       `json:"tsops"`
}

type mirror struct {
	input
	Obs []segObs `json:"obs"`
}

// toggleScope lets the observer read every key while the operations under test see the real scope.
type toggleScope struct {
	inner  state.Scope
	bypass *bool
}

func (t toggleScope) Has(k []byte, p state.Permissions) bool {
	if *t.bypass {
		return true
	}
	return t.inner.Has(k, p)
}

func errClass(err error) int {
	switch {
	case err == nil:
		return 0
	case errors.Is(err, tstate.ErrInvalidKeyOrPermission):
		return 1
	case errors.Is(err, tstate.ErrInvalidKeyValue):
		return 2
	case errors.Is(err, database.ErrNotFound):
		return 3
	default:
		return 4
	}
}

func clone(b []byte) []byte { return append([]byte{}, b...) }

func buildScope(sp scopeSpec) (state.Scope, bool) {
	switch sp.Kind {
	case "all":
		return state.CompletePermissions, true
	case "add":
		ks := state.Keys{}
		for _, d := range sp.Decls {
			if !ks.Add(string(d.K), state.Permissions(d.P)) {
				return nil, false
			}
		}
		return ks, true
	case "tx":
		var actions []chain.Action
		sponsor := state.Keys{}
		for gi, g := range sp.Groups {
			if gi == len(sp.Groups)-1 {
				for _, d := range g {
					sponsor[string(d.K)] = state.Permissions(d.P)
				}
				break
			}
			a := &chaintest.TestAction{NumComputeUnits: 1, Nonce: uint64(gi)}
			for _, d := range g {
				a.SpecifiedStateKeys = append(a.SpecifiedStateKeys, string(d.K))
				a.SpecifiedStateKeyPermissions = append(a.SpecifiedStateKeyPermissions, state.Permissions(d.P))
			}
			actions = append(actions, a)
		}
		tx := &chain.Transaction{TransactionData: chain.TransactionData{Actions: actions}, Auth: chaintest.NewDummyTestAuth()}
		ks, err := tx.StateKeys(txBH{sponsor})
		if err != nil {
			return nil, false
		}
		return ks, true
	default:
		ks := state.Keys{}
		for _, d := range sp.Decls {
			ks[string(d.K)] = state.Permissions(d.P)
		}
		return ks, true
	}
}

type runner struct {
	ctx    context.Context
	univ   [][]byte
	ts     *tstate.TState
	tsv    *tstate.TStateView
	bypass *bool
}

func (r *runner) readAll() []oval {
	*r.bypass = true
	defer func() { *r.bypass = false }()
	out := make([]oval, len(r.univ))
	for i, k := range r.univ {
		v, err := r.tsv.GetValue(r.ctx, clone(k))
		switch errClass(err) {
		case 0:
			out[i] = oval{true, clone(v)}
		case 3:
			out[i] = oval{false, nil}
		default:
			out[i] = oval{true, []byte(fmt.Sprintf("error:%d", errClass(err)))}
		}
	}
	return out
}

func (r *runner) apply(h hop) (res ires) {
	defer func() {
		if p := recover(); p != nil {
			res = ires{Kind: "err", C: 8}
		}
	}()
	switch h.Op {
	case "get":
		v, err := r.tsv.GetValue(r.ctx, clone(h.K))
		if err != nil {
			return ires{Kind: "err", C: errClass(err)}
		}
		return ires{Kind: "val", V: clone(v)}
	case "ins":
		if err := r.tsv.Insert(r.ctx, clone(h.K), clone(h.V)); err != nil {
			return ires{Kind: "err", C: errClass(err)}
		}
		return ires{Kind: "ok"}
	case "rem":
		if err := r.tsv.Remove(r.ctx, clone(h.K)); err != nil {
			return ires{Kind: "err", C: errClass(err)}
		}
		return ires{Kind: "ok"}
	case "rb":
		if h.N < 0 || h.N > r.tsv.OpIndex() {
			return ires{Kind: "err", C: 9} // outside Rollback's contract; not called
		}
		r.tsv.Rollback(r.ctx, h.N)
		return ires{Kind: "ok"}
	}
	return ires{Kind: "err", C: 7}
}

func sortedKN(m map[string]uint16) []kn {
	out := make([]kn, 0, len(m))
	for k, n := range m {
		out = append(out, kn{[]byte(k), n})
	}
	sort.Slice(out, func(i, j int) bool { return bytes.Compare(out[i].K, out[j].K) < 0 })
	return out
}

func (r *runner) changed() []kov {
	ck := r.ts.ChangedKeys()
	out := make([]kov, 0, len(ck))
	for k, v := range ck {
		if v.IsNothing() {
			out = append(out, kov{[]byte(k), oval{false, nil}})
		} else {
			out = append(out, kov{[]byte(k), oval{true, clone(v.Value())}})
		}
	}
	sort.Slice(out, func(i, j int) bool { return bytes.Compare(out[i].K, out[j].K) < 0 })
	return out
}

// hopGen produces the next operation of a segment online (it may look at the live view), or
// returns false to end the segment.
type hopGen func(r *runner, segIdx int, step int) (hop, bool)

// exec runs a case.  If gen != nil the histories of segments whose Hist is nil are generated
// online and stored into in.Segs.
func exec(in *input, gen hopGen) []segObs {
	ctx := context.Background()
	storage := state.ImmutableStorage(map[string][]byte{})
	for _, e := range in.Base {
		storage[string(e.K)] = clone(e.V)
	}
	ts := tstate.New(4)
	obs := make([]segObs, 0, len(in.Segs))
	for si := range in.Segs {
		sg := &in.Segs[si]
		so := segObs{Steps: []stepObs{}}
		sc, ok := buildScope(sg.Scope)
		so.ScopeOK = ok
		r := &runner{ctx: ctx, univ: in.Univ, ts: ts, bypass: new(bool)}
		if ok {
			r.tsv = ts.NewView(toggleScope{sc, r.bypass}, storage, 0)
			so.Vis0 = r.readAll()
			online := gen != nil && sg.Hist == nil
			if online {
				sg.Hist = []hop{}
			}
			for i := 0; ; i++ {
				var h hop
				if online {
					var more bool
					h, more = gen(r, si, i)
					if !more {
						break
					}
					sg.Hist = append(sg.Hist, h)
				} else {
					if i >= len(sg.Hist) {
						break
					}
					h = sg.Hist[i]
				}
				res := r.apply(h)
				so.Steps = append(so.Steps, stepObs{Res: res, Idx: r.tsv.OpIndex(), Pend: r.tsv.PendingChanges(), Vis: r.readAll()})
			}
			a, w := r.tsv.KeyOperations()
			so.Allocs, so.Writes = sortedKN(a), sortedKN(w)
			if sg.Commit {
				r.tsv.Commit()
			}
		} else {
			sg.Hist = []hop{}
		}
		so.Changed = r.changed()
		so.TSOps = ts.OpIndex()
		obs = append(obs, so)
	}
	return obs
}

// ---------------------------------------------------------------------------- Coq printing

func uniform(b []byte) bool {
	for _, x := range b {
		if x != b[0] {
			return false
		}
	}
	return true
}

func cVal(b []byte) string {
	if len(b) > 6 {
		switch {
		case uniform(b):
			return fmt.Sprintf("(rep %d %d)", len(b), b[0])
		case uniform(b[1:]):
			return fmt.Sprintf("(cons %d (rep %d %d))", b[0], len(b)-1, b[1])
		case uniform(b[:len(b)-1]):
			return fmt.Sprintf("(app (rep %d %d) (cons %d nil))", len(b)-1, b[0], b[len(b)-1])
		}
	}
	return emit.Bytes(b)
}

func cOVal(o oval) string {
	if !o.Exists {
		return "(@None (list N))"
	}
	return "(Some " + cVal(o.V) + ")"
}

func cOVals(os []oval) string {
	items := make([]string, len(os))
	for i, o := range os {
		items[i] = cOVal(o)
	}
	return emit.List("option (list N)", items)
}

func cRes(r ires) string {
	switch r.Kind {
	case "val":
		return "(IVal " + cVal(r.V) + ")"
	case "ok":
		return "IOk"
	default:
		return fmt.Sprintf("(IErr %d)", r.C)
	}
}

func cHop(h hop) string {
	switch h.Op {
	case "get":
		return "(HGet " + emit.Bytes(h.K) + ")"
	case "ins":
		return "(HIns " + emit.Bytes(h.K) + " " + cVal(h.V) + ")"
	case "rem":
		return "(HRem " + emit.Bytes(h.K) + ")"
	default:
		return fmt.Sprintf("(HRb %d)", h.N)
	}
}

func cScope(sp scopeSpec) string {
	if sp.Kind == "all" {
		return "SAll"
	}
	decls := sp.flat()
	items := make([]string, len(decls))
	for i, d := range decls {
		items[i] = emit.Pair(emit.Bytes(d.K), fmt.Sprintf("%d", d.P))
	}
	c := "SRaw"
	if sp.Kind == "add" || sp.Kind == "tx" {
		c = "SAdd"
	}
	return "(" + c + " " + emit.List("list N * N", items) + ")"
}

func cKNs(l []kn) string {
	items := make([]string, len(l))
	for i, e := range l {
		items[i] = emit.Pair(emit.Bytes(e.K), fmt.Sprintf("%d", e.N))
	}
	return emit.List("list N * N", items)
}

func cCase(in *input, obs []segObs) string {
	base := make([]string, len(in.Base))
	for i, e := range in.Base {
		base[i] = emit.Pair(emit.Bytes(e.K), cVal(e.V))
	}
	segs := make([]string, len(in.Segs))
	for i, sg := range in.Segs {
		hs := make([]string, len(sg.Hist))
		for j, h := range sg.Hist {
			hs[j] = cHop(h)
		}
		segs[i] = emit.App("Seg", cScope(sg.Scope), emit.List("hop", hs), emit.Bool(sg.Commit))
	}
	os := make([]string, len(obs))
	for i, o := range obs {
		steps := make([]string, len(o.Steps))
		for j, s := range o.Steps {
			steps[j] = emit.App("SO", cRes(s.Res), fmt.Sprintf("%d", s.Idx), fmt.Sprintf("%d", s.Pend), cOVals(s.Vis))
		}
		ch := make([]string, len(o.Changed))
		for j, e := range o.Changed {
			ch[j] = emit.Pair(emit.Bytes(e.K), cOVal(e.V))
		}
		os[i] = emit.App("SegO", emit.Bool(o.ScopeOK), cOVals(o.Vis0), emit.List("step_obs", steps),
			cKNs(o.Allocs), cKNs(o.Writes), emit.List("list N * option (list N)", ch), fmt.Sprintf("%d", o.TSOps))
	}
	// all numerals inside are N
	return "(mk " + emit.List("list N * list N", base) + " " + emit.BytesList(in.Univ) + " " +
		emit.List("seg", segs) + " " + emit.List("seg_obs", os) + ")%N"
}

// ---------------------------------------------------------------------------- Go-side reference
// (only used to label cases: kind / nontrivial / sig).  The verdict is Coq's.

func sameOval(a, b oval) bool { return a.Exists == b.Exists && bytes.Equal(a.V, b.V) }

// classify replays the observations against a plain map with snapshots and names the first
// class of divergence ("" if none).
func classify(in *input, obs []segObs) (sig string, stats map[string]int) {
	stats = map[string]int{}
	under := map[string]oval{}
	changedPrev := map[string]oval{}
	for _, e := range in.Base {
		under[string(e.K)] = oval{true, e.V}
	}
	set := func(s string) {
		if sig == "" {
			sig = s
		}
	}
	for si, sg := range in.Segs {
		if si >= len(obs) || !obs[si].ScopeOK {
			continue
		}
		o := obs[si]
		cur := map[string]oval{}
		for k, v := range under {
			cur[k] = v
		}
		snaps := []map[string]oval{}
		cp := func(m map[string]oval) map[string]oval {
			c := map[string]oval{}
			for k, v := range m {
				c[k] = v
			}
			return c
		}
		for i, h := range sg.Hist {
			if i >= len(o.Steps) {
				break
			}
			st := o.Steps[i]
			k := string(h.K)
			switch h.Op {
			case "get":
				if st.Res.Kind == "val" && !sameOval(cur[k], oval{true, st.Res.V}) || st.Res.Kind == "err" && st.Res.C == 3 && cur[k].Exists {
					set("get-not-last-write")
				}
			case "ins":
				if st.Res.Kind == "ok" {
					if !sameOval(cur[k], oval{true, h.V}) {
						snaps = append(snaps, cp(cur))
						stats["effective"]++
						if !cur[k].Exists {
							stats["create"]++
						}
					}
					cur[k] = oval{true, h.V}
				} else {
					stats["denied"]++
				}
			case "rem":
				if st.Res.Kind == "ok" {
					if cur[k].Exists {
						snaps = append(snaps, cp(cur))
						stats["effective"]++
						stats["delete"]++
					}
					cur[k] = oval{false, nil}
				} else {
					stats["denied"]++
				}
			case "rb":
				if st.Res.Kind == "ok" && h.N < len(snaps) {
					cur = snaps[h.N]
					snaps = snaps[:h.N]
					stats["rollback"]++
				}
			}
			for j, uk := range in.Univ {
				if j < len(st.Vis) && !sameOval(cur[string(uk)], st.Vis[j]) {
					set("visible-map-wrong-after-" + h.Op)
				}
			}
		}
		// expected published listing
		exp := map[string]oval{}
		for k, v := range changedPrev {
			exp[k] = v
		}
		if sg.Commit {
			for k, v := range cur {
				if !sameOval(v, under[k]) {
					exp[k] = v
				}
			}
		}
		got := map[string]oval{}
		for _, e := range o.Changed {
			got[string(e.K)] = e.V
		}
		if len(got) != len(exp) {
			set("commit-published-wrong-key-set")
		}
		for k, v := range exp {
			if g, ok := got[k]; !ok || !sameOval(g, v) {
				set("commit-published-wrong-value")
			}
		}
		changedPrev = got
		if sg.Commit {
			for k, v := range cur {
				under[k] = v
			}
		}
	}
	return sig, stats
}

// declaredPerm computes the permission a scope specification gives to a key.
func declaredPerm(sp scopeSpec, k []byte) byte {
	if sp.Kind == "all" {
		return 255
	}
	var p byte
	for _, d := range sp.flat() {
		if bytes.Equal(d.K, k) {
			if sp.Kind == "add" || sp.Kind == "tx" {
				p |= d.P
			} else {
				p = d.P
			}
		}
	}
	return p
}

// classifyPerm names the first class of permission violation visible in the observations.
func classifyPerm(in *input, obs []segObs) string {
	for si, sg := range in.Segs {
		if si >= len(obs) || !obs[si].ScopeOK {
			continue
		}
		prev := obs[si].Vis0
		pidx := 0
		for i, h := range sg.Hist {
			if i >= len(obs[si].Steps) {
				break
			}
			st := obs[si].Steps[i]
			p := declaredPerm(sg.Scope, h.K)
			okRes := st.Res.Kind == "ok" || st.Res.Kind == "val" || (st.Res.Kind == "err" && st.Res.C == 3)
			switch h.Op {
			case "get":
				if okRes && p&1 != 1 {
					return "undeclared-read-succeeded"
				}
				if !okRes && st.Res.C == 1 && p&1 == 1 {
					return "declared-read-denied"
				}
			case "ins", "rem":
				if okRes && p&5 != 5 {
					return "undeclared-write-succeeded"
				}
				if !okRes && st.Res.C == 1 && p&7 == 7 {
					return "declared-write-denied"
				}
				if okRes && h.Op == "ins" && p&3 != 3 {
					for j, uk := range in.Univ {
						if bytes.Equal(uk, h.K) && j < len(prev) && !prev[j].Exists {
							return "create-without-allocate-succeeded"
						}
					}
				}
			}
			if st.Res.Kind == "err" && h.Op != "rb" {
				same := st.Idx == pidx && len(st.Vis) == len(prev)
				for j := range st.Vis {
					same = same && j < len(prev) && sameOval(st.Vis[j], prev[j])
				}
				if !same {
					return "failed-operation-changed-state"
				}
			}
			for j, uk := range in.Univ {
				if declaredPerm(sg.Scope, uk)&5 != 5 && j < len(st.Vis) && j < len(obs[si].Vis0) && !sameOval(st.Vis[j], obs[si].Vis0[j]) {
					return "non-write-key-changed"
				}
			}
			prev, pidx = st.Vis, st.Idx
		}
	}
	return ""
}

func finish(in *input, obs []segObs, kind string, prop string) emit.Case {
	sig, stats := classify(in, obs)
	if prop == "C05" {
		sig = classifyPerm(in, obs)
	}
	if sig == "" {
		sig = "none-seen-by-driver"
	}
	nontrivial := stats["effective"] >= 2
	if prop == "C05" {
		nontrivial = stats["denied"] >= 1 && stats["effective"] >= 1
	}
	return emit.Case{Coq: cCase(in, obs), JSON: mirror{*in, obs}, Nontrivial: nontrivial, Kind: kind, Sig: prop + ":" + sig}
}

// ---------------------------------------------------------------------------- generators

var boundaryLens = []int{0, 1, 2, 63, 64, 65, 127, 128, 129, 191, 192}

func mkKey(prefix string, chunks uint16) []byte {
	return append([]byte(prefix), byte(chunks>>8), byte(chunks))
}

func fill(n int, b byte) []byte { return bytes.Repeat([]byte{b}, n) }

// variant returns a value of the same length that differs from v only in its last (or first) byte
func variant(r *rand.Rand, v []byte) []byte {
	if len(v) == 0 {
		return v
	}
	w := clone(v)
	if r.Intn(3) == 0 {
		w[0] ^= byte(1 + r.Intn(3))
	} else {
		w[len(w)-1] ^= byte(1 + r.Intn(3))
	}
	return w
}

type caseGen struct {
	r      *rand.Rand
	prop   string
	keys   [][]byte // main keys
	chunks []uint16
	extra  [][]byte // malformed / twin keys
	pool   [][]byte
	queue  []hop
	cps    []int
	maxLen int
	base   map[string][]byte
}

func (g *caseGen) valFor(ki int) []byte {
	r := g.r
	limit := 0
	if ki >= 0 && ki < len(g.chunks) {
		limit = int(g.chunks[ki])*64 - 1
		if g.chunks[ki] == 0 {
			limit = 0
		}
	}
	bias := 12
	if g.prop == "C40" {
		bias = 40
	}
	if r.Intn(100) < bias { // deliberately around / above the bound
		l := boundaryLens[r.Intn(len(boundaryLens))]
		return fill(l, byte(1+r.Intn(5)))
	}
	if r.Intn(100) < 55 && len(g.pool) > 0 {
		v := g.pool[r.Intn(len(g.pool))]
		if len(v) <= limit {
			if r.Intn(100) < 30 && uniform(v) {
				return variant(r, v) // same length, differs in one byte only
			}
			return v
		}
	}
	var cands []int
	for _, l := range boundaryLens {
		if l <= limit {
			cands = append(cands, l)
		}
	}
	return fill(cands[r.Intn(len(cands))], byte(1+r.Intn(5)))
}

func (g *caseGen) pickKey() (int, []byte) {
	r := g.r
	if len(g.extra) > 0 && r.Intn(100) < 6 {
		return -1, g.extra[r.Intn(len(g.extra))]
	}
	// bias to the first two keys of a random permutation fixed per case: collisions are the norm
	i := r.Intn(len(g.keys))
	if r.Intn(100) < 55 {
		i = r.Intn(2)
	}
	return i, g.keys[i]
}

func (g *caseGen) next(rn *runner, segIdx int, step int) (hop, bool) {
	r := g.r
	if len(g.queue) > 0 {
		h := g.queue[0]
		g.queue = g.queue[1:]
		if h.Op == "rb" { // relative restore point: N encodes "how many ops back"
			idx := rn.tsv.OpIndex()
			n := idx - h.N
			if n < 0 {
				n = 0
			}
			h.N = n
		}
		return h, true
	}
	if step >= g.maxLen {
		return hop{}, false
	}
	idx := rn.tsv.OpIndex()
	ki, k := g.pickKey()
	cur, err := func() ([]byte, error) {
		*rn.bypass = true
		defer func() { *rn.bypass = false }()
		return rn.tsv.GetValue(rn.ctx, k)
	}()
	parent, hasParent := g.base[string(k)]
	x := r.Intn(100)
	switch {
	case x < 26: // insert
		v := g.valFor(ki)
		y := r.Intn(100)
		switch {
		case y < 26 && hasParent:
			v = parent // back to the parent value: "unchanged" detection
		case y < 32 && hasParent && uniform(parent):
			v = variant(r, parent) // almost the parent value
		case y < 40 && err == nil:
			v = cur // same as current: not an op
		case y < 46 && err == nil && uniform(cur):
			v = variant(r, cur) // almost the current value
		}
		return hop{Op: "ins", K: k, V: v}, true
	case x < 46:
		return hop{Op: "rem", K: k}, true
	case x < 54:
		return hop{Op: "get", K: k}, true
	case x < 72: // rollback
		n := 0
		y := r.Intn(100)
		switch {
		case y < 35 && len(g.cps) > 0:
			j := r.Intn(len(g.cps))
			n = g.cps[j]
			g.cps = g.cps[:j]
			if n > idx {
				n = idx
			}
		case y < 70 && idx > 0:
			n = idx - 1 - r.Intn(min(idx, 3))
		default:
			n = r.Intn(idx + 1)
		}
		return hop{Op: "rb", K: nil, N: n}, true
	case x < 76: // remember a checkpoint, then continue with something else
		g.cps = append(g.cps, idx)
		return hop{Op: "get", K: k}, true
	default: // chains on one key
		v1, v2 := g.valFor(ki), g.valFor(ki)
		pv := v1
		if hasParent {
			pv = parent
		}
		chains := [][]hop{
			{{Op: "rem", K: k}, {Op: "ins", K: k, V: v1}, {Op: "rem", K: k}},
			{{Op: "rem", K: k}, {Op: "ins", K: k, V: pv}},
			{{Op: "ins", K: k, V: v1}, {Op: "rem", K: k}, {Op: "ins", K: k, V: v2}},
			{{Op: "rem", K: k}, {Op: "ins", K: k, V: v1}, {Op: "rb", N: 1}},
			{{Op: "rem", K: k}, {Op: "ins", K: k, V: v1}, {Op: "ins", K: k, V: pv}, {Op: "rb", N: 2}},
			{{Op: "ins", K: k, V: v1}, {Op: "ins", K: k, V: pv}, {Op: "rb", N: 1}, {Op: "rem", K: k}},
			{{Op: "rem", K: k}, {Op: "ins", K: k, V: v1}, {Op: "rem", K: k}, {Op: "rb", N: 2}, {Op: "rb", N: 1}},
			{{Op: "ins", K: k, V: v1}, {Op: "rem", K: k}, {Op: "rb", N: 1}, {Op: "rb", N: 1}},
			{{Op: "rem", K: k}, {Op: "rem", K: k}, {Op: "ins", K: k, V: pv}, {Op: "ins", K: k, V: v2}, {Op: "rb", N: 3}},
		}
		c := chains[r.Intn(len(chains))]
		g.queue = append(g.queue, c[1:]...)
		return c[0], true
	}
}

var permChoices = []byte{7, 7, 7, 7, 5, 5, 5, 3, 3, 1, 1, 0, 2, 4, 6}

func (g *caseGen) scope(full int) scopeSpec {
	r := g.r
	x := r.Intn(100)
	if x < full {
		if r.Intn(2) == 0 {
			return scopeSpec{Kind: "all"}
		}
		sp := scopeSpec{Kind: "add"}
		for _, k := range g.keys {
			sp.Decls = append(sp.Decls, decl{k, 7})
		}
		return sp
	}
	sp := scopeSpec{Kind: "add"}
	if r.Intn(100) < 20 {
		sp.Kind = "raw"
	}
	all := append(append([][]byte{}, g.keys...), g.extra...)
	for _, k := range all {
		if r.Intn(100) < 12 {
			continue
		}
		if len(k) < 2 && (sp.Kind == "add" && r.Intn(100) < 85) {
			continue // a malformed key makes Add fail: keep it rare
		}
		p := permChoices[r.Intn(len(permChoices))]
		if r.Intn(100) < 8 {
			p = byte(r.Intn(256))
		}
		sp.Decls = append(sp.Decls, decl{k, p})
		if sp.Kind == "add" && r.Intn(100) < 25 { // the same key declared again (another action / the sponsor)
			sp.Decls = append(sp.Decls, decl{k, permChoices[r.Intn(len(permChoices))]})
		}
	}
	r.Shuffle(len(sp.Decls), func(i, j int) { sp.Decls[i], sp.Decls[j] = sp.Decls[j], sp.Decls[i] })
	if sp.Kind == "add" && r.Intn(100) < 45 {
		// the same declarations spread over the actions of a transaction and its sponsor
		n := 2 + r.Intn(3)
		groups := make([][]decl, n)
		for _, d := range sp.Decls {
			gi := r.Intn(n)
			for t := 0; t < n; t++ { // first group (from gi) that does not hold the key yet
				g := (gi + t) % n
				dup := false
				for _, e := range groups[g] {
					dup = dup || bytes.Equal(e.K, d.K)
				}
				if !dup {
					groups[g] = append(groups[g], d)
					break
				}
			}
		}
		return scopeSpec{Kind: "tx", Groups: groups}
	}
	return sp
}

func genCase(r *rand.Rand, prop string) (*input, *caseGen) {
	g := &caseGen{r: r, prop: prop, base: map[string][]byte{}}
	chunkChoices := []uint16{0, 1, 1, 1, 2, 2, 2, 3, 3, 1024}
	names := []string{"a", "b", "c", "d", "e"}
	r.Shuffle(len(names), func(i, j int) { names[i], names[j] = names[j], names[i] })
	for _, n := range names {
		c := chunkChoices[r.Intn(len(chunkChoices))]
		g.keys = append(g.keys, mkKey(n, c))
		g.chunks = append(g.chunks, c)
	}
	if r.Intn(100) < 50 { // a key that differs from keys[0] only in its size suffix
		g.extra = append(g.extra, mkKey(string(g.keys[0][:1]), g.chunks[0]+1))
	}
	if r.Intn(100) < 30 {
		g.extra = append(g.extra, [][]byte{{}, {0x61}, {0}}[r.Intn(3)])
	}
	in := &input{}
	in.Univ = append(append([][]byte{}, g.keys...), g.extra...)
	// roles (positions after the shuffle): 0,1 in base; 2 created in the block diff; 3 in base and
	// deleted in the block diff; 4 absent.  The twin key is sometimes in base too.
	for _, i := range []int{0, 1, 3} {
		v := g.valFor(i)
		if r.Intn(100) < 8 {
			v = fill(boundaryLens[r.Intn(len(boundaryLens))], 9) // storage may hold anything
		}
		in.Base = append(in.Base, kv{g.keys[i], v})
		g.base[string(g.keys[i])] = v
		g.pool = append(g.pool, v)
	}
	if len(g.extra) > 0 && len(g.extra[0]) >= 2 && r.Intn(2) == 0 {
		v := fill(1, 8)
		in.Base = append(in.Base, kv{g.extra[0], v})
		g.base[string(g.extra[0])] = v
	}
	for i := 0; i < 2; i++ {
		g.pool = append(g.pool, fill(boundaryLens[r.Intn(6)], byte(1+r.Intn(5))))
	}
	// segment 0: build the block-level diff through a full-access view
	setup := seg{Scope: scopeSpec{Kind: "all"}, Commit: true, Hist: []hop{}}
	if r.Intn(100) < 85 {
		v := g.valFor(2)
		setup.Hist = append(setup.Hist, hop{Op: "ins", K: g.keys[2], V: v})
		g.base[string(g.keys[2])] = v
		g.pool = append(g.pool, v)
	}
	if r.Intn(100) < 85 {
		setup.Hist = append(setup.Hist, hop{Op: "rem", K: g.keys[3]})
		delete(g.base, string(g.keys[3]))
	}
	if r.Intn(100) < 25 {
		v := g.valFor(0)
		setup.Hist = append(setup.Hist, hop{Op: "ins", K: g.keys[0], V: v})
		g.base[string(g.keys[0])] = v
	}
	in.Segs = append(in.Segs, setup)
	nseg := 1 + r.Intn(2)
	full := 70
	if prop == "C05" {
		nseg = 1 + r.Intn(3)
		full = 10
	}
	for i := 0; i < nseg; i++ {
		in.Segs = append(in.Segs, seg{Scope: g.scope(full), Commit: r.Intn(100) < 80})
	}
	return in, g
}

// runGenerated runs one generated case; the generator sees the live view.
func runGenerated(r *rand.Rand, prop string) emit.Case {
	in, g := genCase(r, prop)
	gen := func(rn *runner, segIdx int, step int) (hop, bool) {
		if step == 0 {
			g.queue, g.cps = nil, nil
			g.maxLen = 3 + g.r.Intn(12)
			if prop == "C05" {
				g.maxLen = 2 + g.r.Intn(8)
			}
			if g.r.Intn(100) < 5 {
				g.maxLen = 20
			}
		}
		return g.next(rn, segIdx, step)
	}
	obs := exec(in, gen)
	// after a committed segment the "parent" value the generator aims at is stale; that only
	// changes the bias, never the validity of a case.
	return finish(in, obs, "random", prop)
}

// exhaustive enumerates every history of length <= depth over 2 keys x {ins v1, ins v2, rem} x
// rollback to every valid index, from the given initial shape, depth-first on the live code.
func exhaustive(w *emit.Writer, prop string, shape int, depth int) {
	ka, kb := mkKey("a", 1), mkKey("b", 1)
	v1, v2 := []byte{7}, []byte{9}
	mk := func() *input {
		in := &input{Univ: [][]byte{ka, kb}}
		setup := seg{Scope: scopeSpec{Kind: "all"}, Commit: true, Hist: []hop{}}
		switch shape {
		case 0:
			in.Base = []kv{{ka, v1}}
		case 1:
			in.Base = []kv{{ka, v1}}
			setup.Hist = []hop{{Op: "ins", K: kb, V: v2}}
		case 2:
			in.Base = []kv{{ka, v1}, {kb, v2}}
			setup.Hist = []hop{{Op: "rem", K: kb}}
		case 3:
			setup.Hist = []hop{{Op: "ins", K: ka, V: v2}}
		}
		in.Segs = []seg{setup}
		return in
	}
	alphabet := []hop{{Op: "ins", K: ka, V: v1}, {Op: "ins", K: ka, V: v2}, {Op: "rem", K: ka},
		{Op: "ins", K: kb, V: v1}, {Op: "ins", K: kb, V: v2}, {Op: "rem", K: kb}}
	var rec func(hist []hop, idxs []int)
	rec = func(hist []hop, idxs []int) {
		// idxs[i] = OpIndex after hist[:i+1]; only complete (maximal or depth-limited) histories are
		// emitted, every prefix is covered by the per-step observations
		cur := 0
		if len(idxs) > 0 {
			cur = idxs[len(idxs)-1]
		}
		if len(hist) == depth {
			in := mk()
			in.Segs = append(in.Segs, seg{Scope: scopeSpec{Kind: "add", Decls: []decl{{ka, 7}, {kb, 7}}}, Hist: append([]hop{}, hist...), Commit: true})
			obs := exec(in, nil)
			_ = w.Put(finish(in, obs, fmt.Sprintf("exhaustive-shape%d", shape), prop))
			return
		}
		var cands []hop
		cands = append(cands, alphabet...)
		for n := 0; n <= cur && n < depth; n++ {
			cands = append(cands, hop{Op: "rb", N: n})
		}
		for _, h := range cands {
			// run the prefix on the live code to learn the op index (cheap: histories are short)
			in := mk()
			nh := append(append([]hop{}, hist...), h)
			in.Segs = append(in.Segs, seg{Scope: scopeSpec{Kind: "all"}, Hist: nh})
			obs := exec(in, nil)
			st := obs[1].Steps
			rec(nh, append(append([]int{}, idxs...), st[len(st)-1].Idx))
		}
	}
	rec(nil, nil)
}

func replayOne(raw json.RawMessage, prop string) (emit.Case, error) {
	var in input
	if err := json.Unmarshal(raw, &in); err != nil {
		return emit.Case{}, err
	}
	for i := range in.Segs {
		if in.Segs[i].Hist == nil {
			in.Segs[i].Hist = []hop{}
		}
	}
	obs := exec(&in, nil)
	return finish(&in, obs, "replay", prop), nil
}

func TestDriver(t *testing.T) {
	env := emit.GetEnv()
	if env.Out == "" {
		t.Skip("VERIF_OUT not set")
	}
	w, err := emit.NewWriter(env.Out)
	if err != nil {
		t.Fatal(err)
	}
	defer w.Close()
	if env.Prop == "C40" {
		driveKeys(t, env, w)
		return
	}
	if env.Mode == "replay" {
		raws, err := emit.ReadReplay(env.Replay)
		if err != nil {
			t.Fatal(err)
		}
		for _, raw := range raws {
			c, err := replayOne(raw, env.Prop)
			if err != nil {
				t.Fatal(err)
			}
			_ = w.Put(c)
		}
		return
	}
	r := env.Rand()
	if env.Tier == "thorough" {
		for shape := 0; shape < 4; shape++ {
			exhaustive(w, env.Prop, shape, 4)
		}
		exhaustive(w, env.Prop, 2, 5)
	}
	for i := 0; i < env.N; i++ {
		_ = w.Put(runGenerated(r, env.Prop))
	}
}

var _ = strings.Join
