// Package chain: driver for the block-execution properties (C01, C02, C03, C07, C11, C24, C27).
//
// script.go: a chain.Action whose behaviour is a small script over the state.Mutable interface,
// so that every read a transaction performs is visible in its output and every kind of state
// access (get / insert / remove / failing action) can be generated.
package chain

import (
	"context"
	"errors"
	"time"

	"github.com/ava-labs/avalanchego/database"
	"github.com/ava-labs/avalanchego/ids"
	"github.com/ava-labs/avalanchego/utils/wrappers"

	hchain "github.com/ava-labs/hypersdk/chain"
	"github.com/ava-labs/hypersdk/codec"
	"github.com/ava-labs/hypersdk/consts"
	"github.com/ava-labs/hypersdk/state"
)

const (
	OpGet  uint8 = 0
	OpPut  uint8 = 1
	OpDel  uint8 = 2
	OpFail uint8 = 3
)

var ErrScriptFail = errors.New("script action failed on purpose")

type Op struct {
	Kind uint8  `serialize:"true" json:"kind"`
	Key  []byte `serialize:"true" json:"key"`
	Val  []byte `serialize:"true" json:"val"`
}

type ScriptAction struct {
	Compute uint64              `serialize:"true" json:"compute"`
	Keys    []string            `serialize:"true" json:"-"`
	KeysB   [][]byte            `json:"keys"` // JSON mirror of Keys (raw bytes)
	Perms   []state.Permissions `serialize:"true" json:"perms"`
	Ops     []Op                `serialize:"true" json:"ops"`
	Start   int64               `serialize:"true" json:"start"`
	End     int64               `serialize:"true" json:"end"`
	Nonce   uint64              `serialize:"true" json:"nonce"`
	// Schedule control (not part of the encoding, no effect on the state): milliseconds slept inside StateKeys (the
	// processor calls it in its synchronous loop, so it delays the enqueueing of this and all later transactions)
	// and at the start of Execute (a slow task). The sequential model ignores both.
	SleepKeys int `json:"sleepKeys,omitempty"`
	SleepExec int `json:"sleepExec,omitempty"`
}

var _ hchain.Action = (*ScriptAction)(nil)

func (*ScriptAction) GetTypeID() uint8 { return 7 }

func (a *ScriptAction) Bytes() []byte {
	p := &wrappers.Packer{Bytes: make([]byte, 0, 256), MaxSize: consts.NetworkSizeLimit}
	p.PackByte(a.GetTypeID())
	if err := codec.LinearCodec.MarshalInto(a, p); err != nil {
		panic(err)
	}
	return p.Bytes
}

func (a *ScriptAction) ComputeUnits(hchain.Rules) uint64 { return a.Compute }

func (a *ScriptAction) StateKeys(codec.Address, ids.ID) state.Keys {
	if a.SleepKeys > 0 {
		time.Sleep(time.Duration(a.SleepKeys) * time.Millisecond)
	}
	ks := make(state.Keys)
	for i, k := range a.Keys {
		// later declarations of the same key inside ONE action overwrite (a Go map literal would do the same);
		// the driver never generates duplicates inside one action, duplicates across actions are merged by Transaction.StateKeys.
		ks[k] = a.Perms[i]
	}
	return ks
}

func (a *ScriptAction) ValidRange(hchain.Rules) (int64, int64) { return a.Start, a.End }

func (a *ScriptAction) Execute(ctx context.Context, _ hchain.Rules, mu state.Mutable, _ int64, _ codec.Address, _ ids.ID) ([]byte, error) {
	if a.SleepExec > 0 {
		time.Sleep(time.Duration(a.SleepExec) * time.Millisecond)
	}
	out := []byte{}
	for _, op := range a.Ops {
		switch op.Kind {
		case OpGet:
			v, err := mu.GetValue(ctx, op.Key)
			switch {
			case errors.Is(err, database.ErrNotFound):
				out = append(out, 0)
			case err != nil:
				return nil, err
			default:
				out = append(out, 1, byte(len(v)))
				out = append(out, v...)
			}
		case OpPut:
			if err := mu.Insert(ctx, op.Key, op.Val); err != nil {
				return nil, err
			}
		case OpDel:
			if err := mu.Remove(ctx, op.Key); err != nil {
				return nil, err
			}
		default:
			return nil, ErrScriptFail
		}
	}
	return out, nil
}
