package chain

// build.go (C02): the REAL chain.Builder over a real mempool, then the REAL Processor re-verifying the
// built block (parsed back from its bytes) on the same parent in a fresh chain object.

import (
	"context"
	"errors"
	"math/rand"
	"sort"
	"sync"
	"time"

	"github.com/ava-labs/avalanchego/database"
	"github.com/ava-labs/avalanchego/ids"
	"github.com/ava-labs/avalanchego/snow/engine/snowman/block"
	"github.com/ava-labs/avalanchego/trace"
	"github.com/ava-labs/avalanchego/utils/logging"
	"github.com/ava-labs/avalanchego/utils/set"
	"github.com/ava-labs/avalanchego/utils/wrappers"
	"github.com/prometheus/client_golang/prometheus"

	hchain "github.com/ava-labs/hypersdk/chain"
	"github.com/ava-labs/hypersdk/chain/chaintest"
	"github.com/ava-labs/hypersdk/codec"
	"github.com/ava-labs/hypersdk/genesis"
	"github.com/ava-labs/hypersdk/internal/mempool"
	"github.com/ava-labs/hypersdk/internal/validitywindow"
	"github.com/ava-labs/hypersdk/internal/validitywindow/validitywindowtest"
	"github.com/ava-labs/hypersdk/internal/workers"
	"github.com/ava-labs/hypersdk/state/metadata"
	"github.com/ava-labs/hypersdk/verifharness/emit"
)

func UnmarshalScriptAction(b []byte) (hchain.Action, error) {
	a := &ScriptAction{}
	if len(b) == 0 || b[0] != a.GetTypeID() {
		return nil, errors.New("not a script action")
	}
	p := &wrappers.Packer{Bytes: b[1:]}
	if err := codec.LinearCodec.UnmarshalFrom(p, a); err != nil {
		return nil, err
	}
	if p.Offset != len(p.Bytes) {
		return nil, errors.New("trailing bytes")
	}
	a.KeysB = make([][]byte, len(a.Keys))
	for i, k := range a.Keys {
		a.KeysB[i] = []byte(k)
	}
	return a, nil
}

func scriptParser() *hchain.TxTypeParser {
	ac := codec.NewTypeParser[hchain.Action]()
	au := codec.NewTypeParser[hchain.Auth]()
	if err := errors.Join(ac.Register(&ScriptAction{}, UnmarshalScriptAction), au.Register(&chaintest.TestAuth{}, chaintest.UnmarshalTestAuth)); err != nil {
		panic(err)
	}
	return &hchain.TxTypeParser{ActionRegistry: ac, AuthRegistry: au}
}

// BuildScenario: a parent and a mempool. Times are relative to the wall clock at run time.
type BuildScenario struct {
	Base      *Scenario `json:"base"`      // Parent, ParentH, ParentFee, Rules, Txs (= mempool contents in arrival order); ParentTs/BlockTs are filled at run time
	ParentAge int64     `json:"parentAge"` // parent timestamp = now - ParentAge (ms)
	ExpiryOff []int64   `json:"expiryOff"` // per tx: expiry = roundup1000(now) + ExpiryOff[i]
	Dup       []int     `json:"dup"`       // mempool indices the validity window reports as repeats
	Cores     int       `json:"cores"`
	TargetTxs int       `json:"targetTxsSize"`
	// StateTsLag > 0: the timestamp stored in the parent STATE is this much earlier than the parent block's HEADER
	// timestamp (as for a genesis parent, DESIGN.md F-17): the builder measures its gaps against the header, the
	// verifier against the state
	StateTsLag int64 `json:"stateTsLag"`
}

type buildMirror struct {
	Build    *BuildScenario `json:"build"`
	Included []int          `json:"included"` // mempool indices in built order
	BlockTs  int64          `json:"blockTs"`
	ParentTs uint64         `json:"parentTs"`
	BuildErr string         `json:"buildErr,omitempty"`
	Outputs  []Output       `json:"outputs"`
	Stream   []int          `json:"stream"`   // mempool indices in the order Mempool.Stream handed them out
	Restored []int          `json:"restored"` // mempool indices handed back through Mempool.FinishStreaming (sorted)
	Outcome  int            `json:"outcome"`  // 0 built | 1 ErrTimestampTooEarly | 2 ErrNoTxs | 3 other error
}

// recMempool is a recording proxy in front of the REAL mempool: every call is forwarded unchanged; the proxy
// remembers what Stream handed to the builder and what the builder handed back through FinishStreaming (which
// the builder calls from a goroutine: done is closed when it has returned).
type recMempool struct {
	inner    *mempool.Mempool[*hchain.Transaction]
	mu       sync.Mutex
	streamed []*hchain.Transaction
	restored []*hchain.Transaction
	finished bool
	done     chan struct{}
}

func (m *recMempool) Len(ctx context.Context) int  { return m.inner.Len(ctx) }
func (m *recMempool) Size(ctx context.Context) int { return m.inner.Size(ctx) }
func (m *recMempool) Add(ctx context.Context, txs []*hchain.Transaction) {
	m.inner.Add(ctx, txs)
}
func (m *recMempool) StartStreaming(ctx context.Context) { m.inner.StartStreaming(ctx) }
func (m *recMempool) PrepareStream(ctx context.Context, n int) {
	m.inner.PrepareStream(ctx, n)
}

func (m *recMempool) Stream(ctx context.Context, n int) []*hchain.Transaction {
	txs := m.inner.Stream(ctx, n)
	m.mu.Lock()
	m.streamed = append(m.streamed, txs...)
	m.mu.Unlock()
	return txs
}

func (m *recMempool) FinishStreaming(ctx context.Context, restorable []*hchain.Transaction) int {
	n := m.inner.FinishStreaming(ctx, restorable)
	m.mu.Lock()
	m.restored = append(m.restored, restorable...)
	first := !m.finished
	m.finished = true
	m.mu.Unlock()
	if first {
		close(m.done)
	}
	return n
}

// bcaseCoq wraps the Chain_check case of the built block into the C02 case (Check/C02_check.v: mkBCase).
func bcaseCoq(base string, pool []string, stream, dup, restored, included []int, targetTxs int, hdrH uint64, hdrTs int64, outcome int) string {
	ns := func(xs []int) string {
		items := make([]string, len(xs))
		for i, x := range xs {
			items[i] = emit.N(uint64(x))
		}
		return emit.List("N", items)
	}
	return emit.App("mkBCase", base, emit.List("tx", pool), ns(stream), ns(dup), ns(restored), ns(included),
		emit.N(uint64(targetTxs)), emit.N(hdrH), emit.Z(hdrTs), emit.N(uint64(outcome)))
}

func genBuildScenario(r *rand.Rand) *BuildScenario {
	s := genScenario(r, "C02")
	s.TooLate, s.NoHeight, s.VWDup, s.RootOK = false, false, false, true
	b := &BuildScenario{Base: s, Cores: pick(r, []int{1, 1, 2, 4, 16}), TargetTxs: 1 << 20}
	b.ParentAge = pick(r, []int64{150, 400, 800, 1000, 2500, 9000, 11000, 30})
	if r.Intn(6) == 0 {
		b.TargetTxs = 300 + r.Intn(1500) // size cap reached after a few txs
	}
	if r.Intn(6) == 0 {
		b.StateTsLag = pick(r, []int64{1, 50, 1000, 5000, 100000})
	}
	// mempool admission (chain/pre_executor.go) has verified every signature: BuildBlock never does
	for i := range s.Txs {
		s.Txs[i].AuthOK = true
	}
	switch r.Intn(6) {
	case 0:
		// block limits of a few transactions, targets far away: Consume fails -> skip and keep packing
		s.Rules.MaxBlockUnits = [5]uint64{uint64(600 + r.Intn(3000)), uint64(10 + r.Intn(60)), uint64(40 + r.Intn(300)), uint64(100 + r.Intn(600)), uint64(60 + r.Intn(400))}
	case 1:
		// low targets under tight limits: a failing Consume finds the target reached -> errBlockFull
		s.Rules.MaxBlockUnits = [5]uint64{uint64(600 + r.Intn(3000)), uint64(10 + r.Intn(60)), uint64(40 + r.Intn(300)), uint64(100 + r.Intn(600)), uint64(60 + r.Intn(400))}
		for d := 0; d < 5; d++ {
			s.Rules.Target[d] = s.Rules.MaxBlockUnits[d] / uint64(1+r.Intn(4))
		}
	}
	for i := range s.Txs {
		off := int64(1000 * (1 + r.Intn(40)))
		switch r.Intn(25) {
		case 0:
			off = -3000 // expired
		case 1:
			off = s.Rules.ValidityWindow + 5000 // too far in the future
		}
		b.ExpiryOff = append(b.ExpiryOff, off)
		if r.Intn(12) == 0 {
			b.Dup = append(b.Dup, i)
		}
	}
	return b
}

func outputFromBlock(ctx context.Context, s *Scenario, cfg Config, ob *hchain.OutputBlock) (Output, error) {
	out := Output{Config: cfg}
	for _, rr := range ob.ExecutionResults.Results {
		ro := ResultOut{Success: rr.Success, ErrCls: classifyResultErr(rr.Error), Fee: rr.Fee, Units: [5]uint64(rr.Units), Outputs: rr.Outputs}
		if ro.Outputs == nil {
			ro.Outputs = [][]byte{}
		}
		out.Results = append(out.Results, ro)
	}
	out.Prices = [5]uint64(ob.ExecutionResults.UnitPrices)
	out.Consumed = [5]uint64(ob.ExecutionResults.UnitsConsumed)
	for _, k := range s.universeKeys() {
		v, err := ob.View.GetValue(ctx, k)
		switch {
		case errors.Is(err, database.ErrNotFound):
			out.Post = append(out.Post, PostKV{K: k})
		case err != nil:
			return out, err
		default:
			out.Post = append(out.Post, PostKV{K: k, Present: true, V: v})
		}
	}
	mk := metaKeys()
	hb, err := ob.View.GetValue(ctx, mk[0])
	if err != nil {
		return out, err
	}
	out.PostH, _ = database.ParseUInt64(hb)
	tb, err := ob.View.GetValue(ctx, mk[1])
	if err != nil {
		return out, err
	}
	out.PostTs, _ = database.ParseUInt64(tb)
	fb, err := ob.View.GetValue(ctx, mk[2])
	if err != nil {
		return out, err
	}
	fs, ok := feeStateFromBytes(fb)
	if !ok {
		return out, errors.New("bad post fee bytes")
	}
	out.PostFee = fs
	root, err := ob.View.GetMerkleRoot(ctx)
	if err != nil {
		return out, err
	}
	out.Root = root.String()
	out.Reads = [][]byte{}
	return out, nil
}

func runBuild(b *BuildScenario) (emit.Case, error) {
	ctx := context.Background()
	s := b.Base
	now := time.Now().UnixMilli()
	hdrTs := now - b.ParentAge
	s.ParentTs = uint64(hdrTs - b.StateTsLag)
	s.ParentFee.LastSec = s.ParentTs / 1000
	base := (now/1000 + 1) * 1000
	for i := range s.Txs {
		s.Txs[i].Expiry = base + b.ExpiryOff[i]
	}
	mir := buildMirror{Build: b, ParentTs: s.ParentTs}
	db, err := newDB(s.parentMap())
	if err != nil {
		return emit.Case{}, err
	}
	txs, err := s.buildTxs()
	if err != nil {
		return emit.Case{}, err
	}
	idxOf := map[ids.ID]int{}
	for i, tx := range txs {
		idxOf[tx.GetID()] = i
	}
	mp := &recMempool{inner: mempool.New[*hchain.Transaction](trace.Noop, 10_000, 10_000), done: make(chan struct{})}
	mp.Add(ctx, txs)
	pool := make([]string, len(txs))
	for i := range txs {
		pool[i] = s.coqTx(i, txs[i])
	}
	dupIdx := []int{}
	for _, i := range b.Dup {
		if i < len(txs) {
			dupIdx = append(dupIdx, i)
		}
	}
	dup := set.NewSet[ids.ID](len(b.Dup))
	for _, i := range b.Dup {
		if i < len(txs) {
			dup.Add(txs[i].GetID())
		}
	}
	vw := &validitywindowtest.MockTimeValidityWindow[*hchain.Transaction]{
		OnIsRepeat: func(_ context.Context, _ validitywindow.ExecutionBlock[*hchain.Transaction], containers []*hchain.Transaction, _ int64) (set.Bits, error) {
			bits := set.NewBits()
			for i, c := range containers {
				if dup.Contains(c.GetID()) {
					bits.Add(i)
				}
			}
			return bits, nil
		},
	}
	rules := s.Rules.toRules()
	rf := &genesis.ImmutableRuleFactory{Rules: rules}
	metrics, err := hchain.NewMetrics(prometheus.NewRegistry())
	if err != nil {
		return emit.Case{}, err
	}
	conf := hchain.NewDefaultConfig()
	conf.TransactionExecutionCores = b.Cores
	conf.StateFetchConcurrency = b.Cores
	conf.TargetTxsSize = b.TargetTxs
	conf.TargetBuildDuration = 2 * time.Second
	mm := metadata.NewDefaultManager()
	builder := hchain.NewBuilder(trace.Noop, rf, &logging.NoLog{}, mm, bh, mp, vw, metrics, conf)
	root, err := db.GetMerkleRoot(ctx)
	if err != nil {
		return emit.Case{}, err
	}
	parentBlk, err := hchain.NewStatelessBlock(ids.ID{9}, hdrTs, s.ParentH, nil, root, &block.Context{})
	if err != nil {
		return emit.Case{}, err
	}
	parentOut := &hchain.OutputBlock{ExecutionBlock: hchain.NewExecutionBlock(parentBlk), View: db, ExecutionResults: &hchain.ExecutionResults{}}

	eb, ob, berr := builder.BuildBlock(ctx, &block.Context{}, parentOut)
	sanity := ""
	// the builder hands the restorable transactions back from a goroutine
	// (not when it refused before it started streaming)
	if berr == nil || !errors.Is(berr, hchain.ErrTimestampTooEarly) {
		select {
		case <-mp.done:
		case <-time.After(20 * time.Second):
			sanity = "builder never called FinishStreaming"
		}
	}
	mp.mu.Lock()
	for _, tx := range mp.streamed {
		if i, ok := idxOf[tx.GetID()]; ok {
			mir.Stream = append(mir.Stream, i)
		}
	}
	restoredSet := map[int]bool{}
	for _, tx := range mp.restored {
		if i, ok := idxOf[tx.GetID()]; ok {
			restoredSet[i] = true
		}
	}
	mp.mu.Unlock()
	mir.Restored = []int{}
	for i := range restoredSet {
		mir.Restored = append(mir.Restored, i)
	}
	sort.Ints(mir.Restored)
	hdrH := s.ParentH
	if berr != nil {
		mir.BuildErr = berr.Error()
		after := time.Now().UnixMilli()
		// the builder may refuse only when the parent is too recent or when nothing is includable
		mir.Outcome = 3
		switch {
		case errors.Is(berr, hchain.ErrTimestampTooEarly):
			mir.Outcome = 1
			if now-hdrTs >= rules.MinBlockGap+5 {
				sanity = "builder refused with timestamp-too-early although the gap had passed"
			}
		case errors.Is(berr, hchain.ErrNoTxs):
			mir.Outcome = 2
			if now-hdrTs >= rules.MinEmptyBlockGap+5 {
				sanity = "builder refused an empty block although the empty-block gap had passed"
			}
		default:
			sanity = "unexpected build error: " + berr.Error()
		}
		_ = after
		c := emit.Case{Kind: "build-error", JSON: mir, Nontrivial: false, Sig: "builder-refused-wrongly"}
		outs := []Output{}
		if sanity != "" {
			outs = append(outs, Output{Config: Config{Cores: 0}, ErrCls: 98, ErrText: sanity})
		}
		mir.Outputs = outs
		c.JSON = mir
		s.BlockTs = now
		s.BlockH = s.ParentH + 1
		s.Txs = nil
		c.Coq = bcaseCoq(s.coq(nil, outs), pool, mir.Stream, dupIdx, mir.Restored, nil, b.TargetTxs, hdrH, hdrTs, mir.Outcome)
		return c, nil
	}
	mir.BlockTs = eb.Tmstmp
	// included transactions, in built order
	inclTxs := make([]TxIn, 0, len(eb.StatelessBlock.Txs))
	seen := map[int]bool{}
	for _, tx := range eb.StatelessBlock.Txs {
		i, ok := idxOf[tx.GetID()]
		switch {
		case !ok:
			sanity = "built block contains a transaction that was not in the mempool"
		case seen[i]:
			sanity = "built block contains a transaction twice"
		case dup.Contains(tx.GetID()):
			sanity = "built block contains a transaction the validity window reported as a repeat"
		}
		if ok {
			seen[i] = true
			mir.Included = append(mir.Included, i)
			inclTxs = append(inclTxs, s.Txs[i])
		}
	}
	builderOut, err := outputFromBlock(ctx, s, Config{Cores: b.Cores, Fetch: 0, Workers: 0}, ob)
	if err != nil {
		return emit.Case{}, err
	}
	outs := []Output{builderOut}
	if sanity != "" {
		outs = append(outs, Output{Config: Config{Cores: 0}, ErrCls: 98, ErrText: sanity})
	}
	// re-verify the built block, parsed back from its bytes, in fresh chain objects
	for _, cfg := range []Config{{1, 1, 0}, {4, 4, 4}} {
		parsed, err := hchain.UnmarshalBlock(eb.GetBytes(), scriptParser())
		if err != nil {
			outs = append(outs, Output{Config: cfg, ErrCls: 97, ErrText: "built block does not parse: " + err.Error()})
			continue
		}
		var w workers.Workers
		if cfg.Workers == 0 {
			w = workers.NewSerial()
		} else {
			w = workers.NewParallel(cfg.Workers, 10)
		}
		m2, err := hchain.NewMetrics(prometheus.NewRegistry())
		if err != nil {
			return emit.Case{}, err
		}
		c2 := hchain.NewDefaultConfig()
		c2.TransactionExecutionCores = cfg.Cores
		c2.StateFetchConcurrency = cfg.Fetch
		p := hchain.NewProcessor(trace.Noop, &logging.NoLog{}, rf, w, chaintest.NewDummyTestAuthEngines(), mm, bh,
			&validitywindowtest.MockTimeValidityWindow[*hchain.Transaction]{}, m2, c2)
		vob, verr := p.Execute(ctx, db, hchain.NewExecutionBlock(parsed), true)
		w.Stop()
		if verr != nil {
			o := Output{Config: cfg}
			o.ErrCls, o.ErrSub, o.ErrText = classify(verr)
			o.Reads = [][]byte{}
			outs = append(outs, o)
			continue
		}
		vo, err := outputFromBlock(ctx, s, cfg, vob)
		if err != nil {
			return emit.Case{}, err
		}
		outs = append(outs, vo)
	}
	mir.Outputs = outs
	if len(inclTxs) != len(eb.StatelessBlock.Txs) {
		s.BlockTs, s.BlockH, s.Txs = eb.Tmstmp, eb.Hght, nil
		return emit.Case{Coq: bcaseCoq(s.coq(nil, outs[1:2]), pool, mir.Stream, dupIdx, mir.Restored, mir.Included, b.TargetTxs, hdrH, hdrTs, 0),
			JSON: mir, Kind: "built", Sig: "built-block-contains-foreign-tx"}, nil
	}
	// the Coq case: the scenario restricted to the included transactions, at the built timestamp
	s2 := *s
	s2.BlockTs = eb.Tmstmp
	s2.BlockH = eb.Hght
	s2.Txs = inclTxs
	inclObjs := make([]*hchain.Transaction, len(eb.StatelessBlock.Txs))
	copy(inclObjs, eb.StatelessBlock.Txs)
	// the Coq case carries every mempool transaction once (pool); the block's transactions are pool[included]
	_ = inclObjs
	s3 := s2
	s3.Txs = nil
	kind := "built"
	if len(inclTxs) < len(s.Txs) {
		kind = "built-with-skips"
		// what the builder did with the candidates it left out
		nDropped, nRestored := 0, 0
		for i := range s.Txs {
			if !seen[i] {
				if restoredSet[i] {
					nRestored++
				} else {
					nDropped++
				}
			}
		}
		switch {
		case nRestored > 0 && nDropped > 0:
			kind = "built-with-drops-and-restores"
		case nRestored > 0:
			kind = "built-with-restores"
		}
	}
	if mir.Included == nil {
		mir.Included = []int{}
	}
	return emit.Case{
		Coq:        bcaseCoq(s3.coq(nil, outs), pool, mir.Stream, dupIdx, mir.Restored, mir.Included, b.TargetTxs, hdrH, hdrTs, 0),
		JSON:       mir,
		Nontrivial: len(inclTxs) >= 1 && len(inclTxs) < len(s.Txs),
		Kind:       kind,
		Sig:        "built-block-verification-diverges",
	}, nil
}
