package chain

// exec.go: generation of block-execution scenarios and execution of the REAL chain.Processor under
// several concurrency configurations. The Coq side (coq/Check/Chain_check.v) evaluates the sequential
// model Chain.execute_block on the same scenario.

import (
	"context"
	"encoding/binary"
	"errors"
	"fmt"
	"math/rand"
	"sort"
	"strings"
	"sync"
	"time"

	"github.com/ava-labs/avalanchego/database"
	"github.com/ava-labs/avalanchego/database/memdb"
	"github.com/ava-labs/avalanchego/ids"
	"github.com/ava-labs/avalanchego/snow/engine/snowman/block"
	"github.com/ava-labs/avalanchego/trace"
	"github.com/ava-labs/avalanchego/utils/logging"
	"github.com/ava-labs/avalanchego/x/merkledb"
	"github.com/prometheus/client_golang/prometheus"

	hchain "github.com/ava-labs/hypersdk/chain"
	"github.com/ava-labs/hypersdk/chain/chaintest"
	"github.com/ava-labs/hypersdk/codec"
	"github.com/ava-labs/hypersdk/fees"
	"github.com/ava-labs/hypersdk/genesis"
	internalfees "github.com/ava-labs/hypersdk/internal/fees"
	"github.com/ava-labs/hypersdk/internal/validitywindow"
	"github.com/ava-labs/hypersdk/internal/validitywindow/validitywindowtest"
	"github.com/ava-labs/hypersdk/internal/workers"
	"github.com/ava-labs/hypersdk/state"
	"github.com/ava-labs/hypersdk/state/balance"
	"github.com/ava-labs/hypersdk/state/metadata"
	"github.com/ava-labs/hypersdk/state/tstate"
	"github.com/ava-labs/hypersdk/verifharness/emit"

	mactions "github.com/ava-labs/hypersdk/examples/morpheusvm/actions"
	mstorage "github.com/ava-labs/hypersdk/examples/morpheusvm/storage"
)

// ---------------------------------------------------------------------------------- scenario

type KV struct {
	K []byte `json:"k"`
	V []byte `json:"v"`
}

type FeeState struct {
	LastSec  uint64       `json:"lastSec"`
	Prices   [5]uint64    `json:"prices"`
	Windows  [5][10]uint64 `json:"windows"`
	Consumed [5]uint64    `json:"consumed"`
}

type RulesIn struct {
	MinBlockGap      int64     `json:"minBlockGap"`
	MinEmptyBlockGap int64     `json:"minEmptyBlockGap"`
	MinUnitPrice     [5]uint64 `json:"minUnitPrice"`
	ChangeDenom      [5]uint64 `json:"changeDenom"`
	Target           [5]uint64 `json:"target"`
	MaxBlockUnits    [5]uint64 `json:"maxBlockUnits"`
	ValidityWindow   int64     `json:"validityWindow"`
	MaxActions       uint8     `json:"maxActions"`
	BaseCompute      uint64    `json:"baseCompute"`
	KeyRead          uint64    `json:"keyRead"`
	ValRead          uint64    `json:"valRead"`
	KeyAlloc         uint64    `json:"keyAlloc"`
	ValAlloc         uint64    `json:"valAlloc"`
	KeyWrite         uint64    `json:"keyWrite"`
	ValWrite         uint64    `json:"valWrite"`
}

type TxIn struct {
	Expiry      int64           `json:"expiry"`
	ChainOK     bool            `json:"chainOk"`
	MaxFee      uint64          `json:"maxFee"`
	Sponsor     int             `json:"sponsor"` // index into sponsors
	Actor       int             `json:"actor"`
	AuthOK      bool            `json:"authOk"`
	AuthCompute uint64          `json:"authCompute"`
	AuthStart   int64           `json:"authStart"`
	AuthEnd     int64           `json:"authEnd"`
	Actions     []*ScriptAction `json:"actions"`
	Transfers   []TransferIn    `json:"transfers"` // reference-VM scenarios: the actions are these transfers
	Nonce       uint64          `json:"nonce"`
}

// TransferIn is one examples/morpheusvm Transfer action.
type TransferIn struct {
	To      int    `json:"to"` // account index (numSponsors = an account that is never a sponsor)
	Value   uint64 `json:"value"`
	MemoLen int    `json:"memoLen"`
}

type Scenario struct {
	Parent     []KV     `json:"parent"` // data + balance keys (metadata given structurally below)
	ParentH    uint64   `json:"parentHeight"`
	ParentTs   uint64   `json:"parentTs"`
	ParentFee  FeeState `json:"parentFee"`
	NoHeight   bool     `json:"noHeight"` // parent state lacks the height key
	Rules      RulesIn  `json:"rules"`
	BlockTs    int64    `json:"blockTs"`
	BlockH     uint64   `json:"blockHeight"`
	RootOK     bool     `json:"rootOk"`
	TooLate    bool     `json:"tooLate"` // block timestamp is set beyond now + FutureBound at run time
	VWDup      bool     `json:"vwDup"`   // the validity window reports a duplicate
	// PreAdmit: before the block is executed, every transaction object has been looked at under OTHER rules (Units and
	// StateKeys with all storage and base costs tripled), as admission before a rules change would; what is charged in
	// the block must depend on the block's rules only
	PreAdmit bool `json:"preAdmit,omitempty"`
	// UsedProc: the Processor that executes the block is not fresh: it has just been given the same block on top of a
	// DIFFERENT state (other height and timestamp, hence another root: a block offered against the wrong parent). What
	// the block's verification answers on its real parent must not depend on that earlier call.
	UsedProc bool `json:"usedProc,omitempty"`
	ParentBlockTs uint64 `json:"parentBlockTs"` // timestamp in the parent block's HEADER (0 = same as the state timestamp ParentTs)
	Genesis    []Alloc  `json:"genesis"`       // non-nil: the parent is the genesis commit of these allocations (C11 genesis scenarios)
	Morpheus   bool     `json:"morpheus"` // reference VM: morpheusvm balance handler + Transfer actions
	FailKey    []byte   `json:"failKey"` // reading this key from the parent view returns an injected error (nil = none)
	Txs        []TxIn   `json:"txs"`
}

var testChainID = ids.ID{0xC1, 0xA1}

func sponsorAddr(i int) codec.Address {
	var a codec.Address
	a[0] = 0 // TestAuth type id
	a[1] = byte(0x50 + i)
	a[32] = byte(i + 1)
	return a
}

const numSponsors = 4

// data keys: name byte + 2-byte chunk suffix
var dataKeys = [][]byte{
	{0xD0, 0, 1}, {0xD1, 0, 1}, {0xD2, 0, 2}, {0xD3, 0, 1}, {0xD4, 0, 1},
}

var bh = balance.NewPrefixBalanceHandler([]byte{0x0B})

func (s *Scenario) handler() hchain.BalanceHandler {
	if s.Morpheus {
		return &mstorage.BalanceHandler{}
	}
	return bh
}

func (s *Scenario) balanceKey(i int) []byte {
	if s.Morpheus {
		return mstorage.BalanceKey(sponsorAddr(i))
	}
	return bh.BalanceKey(sponsorAddr(i))
}

func (r RulesIn) toRules() *genesis.Rules {
	g := genesis.NewDefaultRules()
	g.ChainID = testChainID
	g.MinBlockGap = r.MinBlockGap
	g.MinEmptyBlockGap = r.MinEmptyBlockGap
	g.MinUnitPrice = fees.Dimensions(r.MinUnitPrice)
	g.UnitPriceChangeDenominator = fees.Dimensions(r.ChangeDenom)
	g.WindowTargetUnits = fees.Dimensions(r.Target)
	g.MaxBlockUnits = fees.Dimensions(r.MaxBlockUnits)
	g.ValidityWindow = r.ValidityWindow
	g.MaxActionsPerTx = r.MaxActions
	g.BaseComputeUnits = r.BaseCompute
	g.StorageKeyReadUnits = r.KeyRead
	g.StorageValueReadUnits = r.ValRead
	g.StorageKeyAllocateUnits = r.KeyAlloc
	g.StorageValueAllocateUnits = r.ValAlloc
	g.StorageKeyWriteUnits = r.KeyWrite
	g.StorageValueWriteUnits = r.ValWrite
	return g
}

func (f FeeState) bytes() []byte {
	m := internalfees.NewManager(nil)
	raw := m.Bytes()
	binary.BigEndian.PutUint64(raw[0:8], f.LastSec)
	for d := 0; d < 5; d++ {
		start := 8 + 96*d
		binary.BigEndian.PutUint64(raw[start:start+8], f.Prices[d])
		for s := 0; s < 10; s++ {
			binary.BigEndian.PutUint64(raw[start+8+8*s:start+16+8*s], f.Windows[d][s])
		}
		binary.BigEndian.PutUint64(raw[start+88:start+96], f.Consumed[d])
	}
	return raw
}

func feeStateFromBytes(raw []byte) (FeeState, bool) {
	var f FeeState
	if len(raw) != 8+96*5 {
		return f, false
	}
	f.LastSec = binary.BigEndian.Uint64(raw[0:8])
	for d := 0; d < 5; d++ {
		start := 8 + 96*d
		f.Prices[d] = binary.BigEndian.Uint64(raw[start : start+8])
		for s := 0; s < 10; s++ {
			f.Windows[d][s] = binary.BigEndian.Uint64(raw[start+8+8*s : start+16+8*s])
		}
		f.Consumed[d] = binary.BigEndian.Uint64(raw[start+88 : start+96])
	}
	return f, true
}

// ---------------------------------------------------------------------------------- execution

type Config struct {
	Cores   int `json:"cores"`
	Fetch   int `json:"fetch"`
	Workers int `json:"workers"` // 0 = serial
}

var configs = []Config{{1, 1, 0}, {4, 4, 4}, {16, 16, 16}, {2, 1, 2}}

type ResultOut struct {
	Success bool      `json:"success"`
	ErrCls  uint64    `json:"errCls"`
	Fee     uint64    `json:"fee"`
	Units   [5]uint64 `json:"units"`
	Outputs [][]byte  `json:"outputs"`
}

type PostKV struct {
	K       []byte `json:"k"`
	Present bool   `json:"present"`
	V       []byte `json:"v"`
}

type Output struct {
	Config   Config      `json:"config"`
	ErrCls   uint64      `json:"errCls"` // 0 = ok
	ErrSub   uint64      `json:"errSub"`
	ErrText  string      `json:"errText,omitempty"`
	Results  []ResultOut `json:"results,omitempty"`
	Post     []PostKV    `json:"post,omitempty"` // universe keys in sorted order (data, balances)
	PostH    uint64      `json:"postHeight"`
	PostTs   uint64      `json:"postTs"`
	PostFee  FeeState    `json:"postFee"`
	Prices   [5]uint64   `json:"prices"`
	Consumed [5]uint64   `json:"consumed"`
	Root     string      `json:"root"`
	Reads    [][]byte    `json:"reads"` // every key requested from the parent view, sorted, with multiplicity
}

var errInjectedRead = errors.New("injected parent read error")

// recView wraps the parent view and records (and optionally fails) every GetValue.
type recView struct {
	merkledb.View
	mu      sync.Mutex
	reads   []string
	failKey []byte
}

func (r *recView) GetValue(ctx context.Context, key []byte) ([]byte, error) {
	r.mu.Lock()
	r.reads = append(r.reads, string(key))
	r.mu.Unlock()
	if r.failKey != nil && string(r.failKey) == string(key) {
		return nil, errInjectedRead
	}
	v, err := r.View.GetValue(ctx, key)
	if err == nil && len(v) == 0 {
		// an existing key with the empty value: hand back a nil slice (what a merkledb view over uncommitted
		// changes does); presence is decided by the error, never by the slice
		return nil, nil
	}
	return v, err
}

func (r *recView) GetValues(ctx context.Context, keys [][]byte) ([][]byte, []error) {
	vals := make([][]byte, len(keys))
	errs := make([]error, len(keys))
	for i, k := range keys {
		vals[i], errs[i] = r.GetValue(ctx, k)
	}
	return vals, errs
}

func (r *recView) sortedReads() [][]byte {
	r.mu.Lock()
	defer r.mu.Unlock()
	ss := append([]string{}, r.reads...)
	sort.Strings(ss)
	out := make([][]byte, len(ss))
	for i, x := range ss {
		out[i] = []byte(x)
	}
	return out
}

const (
	clsOK uint64 = iota
	clsTooLate
	clsFetchHeight
	clsParseHeight
	clsBadHeight
	clsFetchTs
	clsParseTs
	clsTooEarly
	clsTooEarlyEmpty
	clsFetchFee
	clsDuplicate
	clsExecuteTxs
	clsRootMismatch
	clsSignature
	clsOther
)

// sub classes of clsExecuteTxs
const (
	subNone uint64 = iota
	subInvalidKey
	subUnitsOverflow
	subUnitsConsumed
	subChainID
	subMisaligned
	subExpired
	subFuture
	subTooManyActions
	subActionNotActivated
	subAuthNotActivated
	subFeeOverflow
	subInsufficientBalance
	subOther
	subInjectedRead
	subInvalidBalance
)

func classify(err error) (uint64, uint64, string) {
	if err == nil {
		return clsOK, subNone, ""
	}
	txt := err.Error()
	switch {
	case errors.Is(err, hchain.ErrTimestampTooLate):
		return clsTooLate, 0, txt
	case errors.Is(err, hchain.ErrFailedToFetchParentHeight):
		return clsFetchHeight, 0, txt
	case errors.Is(err, hchain.ErrFailedToParseParentHeight):
		return clsParseHeight, 0, txt
	case errors.Is(err, hchain.ErrInvalidBlockHeight):
		return clsBadHeight, 0, txt
	case errors.Is(err, hchain.ErrFailedToFetchParentTimestamp):
		return clsFetchTs, 0, txt
	case errors.Is(err, hchain.ErrFailedToParseParentTimestamp):
		return clsParseTs, 0, txt
	case errors.Is(err, hchain.ErrTimestampTooEarlyEmptyBlock):
		return clsTooEarlyEmpty, 0, txt
	case errors.Is(err, hchain.ErrTimestampTooEarly):
		return clsTooEarly, 0, txt
	case errors.Is(err, hchain.ErrFailedToFetchParentFee):
		return clsFetchFee, 0, txt
	case errors.Is(err, hchain.ErrDuplicateTx):
		return clsDuplicate, 0, txt
	case errors.Is(err, hchain.ErrStateRootMismatch):
		return clsRootMismatch, 0, txt
	case errors.Is(err, chaintest.ErrTestAuthVerify) || strings.Contains(txt, "signatures failed verification"):
		return clsSignature, 0, txt
	case strings.Contains(txt, "failed to execute txs"):
		return clsExecuteTxs, classifyTxErr(err), txt
	}
	return clsOther, 0, txt
}

func classifyTxErr(err error) uint64 {
	txt := err.Error()
	switch {
	case errors.Is(err, hchain.ErrInvalidKeyValue):
		return subInvalidKey
	case errors.Is(err, hchain.ErrInvalidUnitsConsumed):
		return subUnitsConsumed
	case errors.Is(err, hchain.ErrInvalidChainID):
		return subChainID
	case errors.Is(err, validitywindow.ErrMisalignedTime):
		return subMisaligned
	case errors.Is(err, validitywindow.ErrTimestampExpired):
		return subExpired
	case errors.Is(err, validitywindow.ErrFutureTimestamp):
		return subFuture
	case errors.Is(err, hchain.ErrTooManyActions):
		return subTooManyActions
	case errors.Is(err, hchain.ErrActionNotActivated):
		return subActionNotActivated
	case errors.Is(err, hchain.ErrAuthNotActivated):
		return subAuthNotActivated
	case errors.Is(err, errInjectedRead):
		return subInjectedRead
	case errors.Is(err, mstorage.ErrInvalidBalance):
		return subInvalidBalance
	case errors.Is(err, balance.ErrInsufficientBalance):
		return subInsufficientBalance
	case strings.Contains(txt, "overflow"):
		// avalanchego safemath ErrOverflow: Units accumulation or Fee computation
		return subUnitsOverflow
	}
	return subOther
}

// result error classes (Result.Error is the error text)
func classifyResultErr(b []byte) uint64 {
	s := string(b)
	switch {
	case len(b) == 0:
		return 0
	case strings.Contains(s, ErrScriptFail.Error()):
		return 1
	case strings.Contains(s, tstate.ErrInvalidKeyOrPermission.Error()):
		return 2
	case strings.Contains(s, tstate.ErrInvalidKeyValue.Error()):
		return 3
	case strings.Contains(s, tstate.ErrAllocationDisabled.Error()):
		return 4
	case strings.Contains(s, mactions.ErrOutputValueZero.Error()):
		return 5
	case strings.Contains(s, mactions.ErrOutputMemoTooLarge.Error()):
		return 6
	case strings.Contains(s, mstorage.ErrInvalidBalance.Error()):
		return 7
	}
	return 9
}

func (s *Scenario) parentMap() map[string][]byte {
	mm := metadata.NewDefaultManager()
	m := map[string][]byte{}
	for _, kv := range s.Parent {
		m[string(kv.K)] = kv.V
	}
	if !s.NoHeight {
		m[string(hchain.HeightKey(mm.HeightPrefix()))] = binary.BigEndian.AppendUint64(nil, s.ParentH)
	}
	m[string(hchain.TimestampKey(mm.TimestampPrefix()))] = binary.BigEndian.AppendUint64(nil, s.ParentTs)
	m[string(hchain.FeeKey(mm.FeePrefix()))] = s.ParentFee.bytes()
	return m
}

func newDB(m map[string][]byte) (merkledb.MerkleDB, error) {
	db, err := merkledb.New(context.Background(), memdb.New(), merkledb.Config{BranchFactor: merkledb.BranchFactor16, Tracer: trace.Noop})
	if err != nil {
		return nil, err
	}
	ks := make([]string, 0, len(m))
	for k := range m {
		ks = append(ks, k)
	}
	sort.Strings(ks)
	for _, k := range ks {
		if err := db.Put([]byte(k), m[k]); err != nil {
			return nil, err
		}
	}
	return db, nil
}

func (s *Scenario) buildTxs() ([]*hchain.Transaction, error) {
	txs := make([]*hchain.Transaction, len(s.Txs))
	for i, ti := range s.Txs {
		chainID := testChainID
		if !ti.ChainOK {
			chainID = ids.ID{0xBA, 0xD0}
		}
		actions := make([]hchain.Action, len(ti.Actions))
		if s.Morpheus {
			actions = make([]hchain.Action, len(ti.Transfers))
			for j, tr := range ti.Transfers {
				actions[j] = &mactions.Transfer{To: sponsorAddr(tr.To), Value: tr.Value, Memo: make([]byte, tr.MemoLen)}
			}
		}
		for j, a := range ti.Actions {
			if s.Morpheus {
				break
			}
			a.Keys = make([]string, len(a.KeysB))
			for x, kb := range a.KeysB {
				a.Keys[x] = string(kb)
			}
			a.Nonce = ti.Nonce*100 + uint64(j)
			actions[j] = a
		}
		auth := &chaintest.TestAuth{
			NumComputeUnits: ti.AuthCompute,
			ActorAddress:    sponsorAddr(ti.Actor),
			SponsorAddress:  sponsorAddr(ti.Sponsor),
			ShouldErr:       !ti.AuthOK,
			Start:           ti.AuthStart,
			End:             ti.AuthEnd,
		}
		tx, err := hchain.NewTransaction(hchain.Base{Timestamp: ti.Expiry, ChainID: chainID, MaxFee: ti.MaxFee}, actions, auth)
		if err != nil {
			return nil, err
		}
		txs[i] = tx
	}
	return txs, nil
}

// universe of keys whose post-state is observed
func (s *Scenario) universeKeys() [][]byte {
	var ks [][]byte
	if s.Morpheus {
		for i := 0; i <= numSponsors; i++ {
			ks = append(ks, s.balanceKey(i))
		}
		sort.Slice(ks, func(i, j int) bool { return string(ks[i]) < string(ks[j]) })
		return ks
	}
	return universeKeys()
}

func universeKeys() [][]byte {
	var ks [][]byte
	ks = append(ks, dataKeys...)
	for i := 0; i < numSponsors; i++ {
		ks = append(ks, bh.BalanceKey(sponsorAddr(i)))
	}
	sort.Slice(ks, func(i, j int) bool { return string(ks[i]) < string(ks[j]) })
	return ks
}

func (s *Scenario) execute(cfg Config) (Output, error) {
	ctx := context.Background()
	out := Output{Config: cfg}
	var db merkledb.MerkleDB
	var err error
	if s.Genesis != nil {
		// the parent is the REAL genesis commit
		_, gview, gdb, gerr := genesisCommit(ctx, &GenesisScenario{Allocs: s.Genesis, MinPrice: s.ParentFee.Prices})
		if gerr != nil {
			return out, gerr
		}
		if err := gview.CommitToDB(ctx); err != nil {
			return out, err
		}
		db = gdb
	} else {
		db, err = newDB(s.parentMap())
		if err != nil {
			return out, err
		}
	}
	root, err := db.GetMerkleRoot(ctx)
	if err != nil {
		return out, err
	}
	if !s.RootOK {
		root[0] ^= 0xFF
	}
	txs, err := s.buildTxs()
	if err != nil {
		return out, err
	}
	if s.PreAdmit {
		alt := s.Rules
		alt.BaseCompute, alt.KeyRead, alt.ValRead = 3*alt.BaseCompute+1, 3*alt.KeyRead+1, 3*alt.ValRead+1
		alt.KeyAlloc, alt.ValAlloc, alt.KeyWrite, alt.ValWrite = 3*alt.KeyAlloc+1, 3*alt.ValAlloc+1, 3*alt.KeyWrite+1, 3*alt.ValWrite+1
		for _, tx := range txs {
			_, _ = tx.StateKeys(s.handler())
			_, _ = tx.Units(s.handler(), alt.toRules())
		}
	}
	ts := s.BlockTs
	if s.TooLate {
		ts = time.Now().Add(10 * hchain.FutureBound).UnixMilli()
	}
	blk, err := hchain.NewStatelessBlock(ids.ID{1}, ts, s.BlockH, txs, root, &block.Context{})
	if err != nil {
		return out, err
	}
	var w workers.Workers
	if cfg.Workers == 0 {
		w = workers.NewSerial()
	} else {
		w = workers.NewParallel(cfg.Workers, 10)
	}
	defer w.Stop()
	metrics, err := hchain.NewMetrics(prometheus.NewRegistry())
	if err != nil {
		return out, err
	}
	vw := &validitywindowtest.MockTimeValidityWindow[*hchain.Transaction]{}
	if s.VWDup {
		vw.OnVerifyExpiryReplayProtection = func(context.Context, validitywindow.ExecutionBlock[*hchain.Transaction]) error {
			return validitywindow.ErrDuplicateContainer
		}
	}
	conf := hchain.NewDefaultConfig()
	conf.TransactionExecutionCores = cfg.Cores
	conf.StateFetchConcurrency = cfg.Fetch
	p := hchain.NewProcessor(trace.Noop, &logging.NoLog{}, &genesis.ImmutableRuleFactory{Rules: s.Rules.toRules()}, w,
		chaintest.NewDummyTestAuthEngines(), metadata.NewDefaultManager(), s.handler(), vw, metrics, conf)

	if s.UsedProc && s.Genesis == nil {
		dm := s.parentMap()
		mm := metadata.NewDefaultManager()
		dh := s.BlockH - 1 // a parent on which the block's height would be right
		if dh == s.ParentH {
			dh = s.ParentH + 3
		}
		dts := uint64(0) // ... and, half of the time, one on which every timestamp gap is satisfied
		if s.ParentTs%2 == 1 {
			dts = s.ParentTs + 5000
		}
		dm[string(hchain.HeightKey(mm.HeightPrefix()))] = binary.BigEndian.AppendUint64(nil, dh)
		dm[string(hchain.TimestampKey(mm.TimestampPrefix()))] = binary.BigEndian.AppendUint64(nil, dts)
		ddb, derr := newDB(dm)
		if derr != nil {
			return out, derr
		}
		dtxs, derr := s.buildTxs()
		if derr != nil {
			return out, derr
		}
		if dblk, derr := hchain.NewStatelessBlock(ids.ID{1}, ts, s.BlockH, dtxs, root, &block.Context{}); derr == nil {
			done := make(chan struct{})
			go func() {
				defer close(done)
				defer func() { _ = recover() }()
				_, _ = p.Execute(ctx, ddb, hchain.NewExecutionBlock(dblk), true)
			}()
			select {
			case <-done:
			case <-time.After(60 * time.Second):
				out.ErrCls, out.ErrText = 99, "HANG: Processor.Execute on the other state did not return within 60s"
				return out, nil
			}
		}
	}
	rv := &recView{View: db, failKey: s.FailKey}
	type res struct {
		ob  *hchain.OutputBlock
		err error
	}
	ch := make(chan res, 1)
	go func() {
		ob, err := p.Execute(ctx, rv, hchain.NewExecutionBlock(blk), true)
		ch <- res{ob, err}
	}()
	var r res
	select {
	case r = <-ch:
	case <-time.After(60 * time.Second):
		out.ErrCls, out.ErrText = 99, "HANG: Processor.Execute did not return within 60s"
		return out, nil
	}
	out.ErrCls, out.ErrSub, out.ErrText = classify(r.err)
	out.Reads = rv.sortedReads()
	if r.err != nil {
		return out, nil
	}
	ob := r.ob
	for _, rr := range ob.ExecutionResults.Results {
		ro := ResultOut{Success: rr.Success, ErrCls: classifyResultErr(rr.Error), Fee: rr.Fee, Units: [5]uint64(rr.Units), Outputs: rr.Outputs}
		if ro.Outputs == nil {
			ro.Outputs = [][]byte{}
		}
		out.Results = append(out.Results, ro)
	}
	out.Prices = [5]uint64(ob.ExecutionResults.UnitPrices)
	out.Consumed = [5]uint64(ob.ExecutionResults.UnitsConsumed)
	for _, k := range s.universeKeys() {
		v, err := ob.View.GetValue(ctx, k)
		switch {
		case errors.Is(err, database.ErrNotFound):
			out.Post = append(out.Post, PostKV{K: k})
		case err != nil:
			return out, err
		default:
			out.Post = append(out.Post, PostKV{K: k, Present: true, V: v})
		}
	}
	mm := metadata.NewDefaultManager()
	hb, err := ob.View.GetValue(ctx, hchain.HeightKey(mm.HeightPrefix()))
	if err != nil {
		return out, err
	}
	out.PostH, _ = database.ParseUInt64(hb)
	tb, err := ob.View.GetValue(ctx, hchain.TimestampKey(mm.TimestampPrefix()))
	if err != nil {
		return out, err
	}
	out.PostTs, _ = database.ParseUInt64(tb)
	fb, err := ob.View.GetValue(ctx, hchain.FeeKey(mm.FeePrefix()))
	if err != nil {
		return out, err
	}
	fs, ok := feeStateFromBytes(fb)
	if !ok {
		return out, fmt.Errorf("post fee bytes have length %d", len(fb))
	}
	out.PostFee = fs
	nr, err := ob.View.GetMerkleRoot(ctx)
	if err != nil {
		return out, err
	}
	out.Root = nr.String()
	return out, nil
}

// ---------------------------------------------------------------------------------- generation

func pick[T any](r *rand.Rand, xs []T) T { return xs[r.Intn(len(xs))] }

func genValue(r *rand.Rand) []byte {
	switch r.Intn(12) {
	case 0:
		return []byte{}
	case 1:
		return make([]byte, 64) // exactly one chunk
	case 2:
		return make([]byte, 65) // two chunks: too large for 1-chunk keys
	case 3:
		return make([]byte, 129) // three chunks
	}
	n := 1 + r.Intn(3)
	b := make([]byte, n)
	for i := range b {
		b[i] = byte(1 + r.Intn(4))
	}
	return b
}

var permChoices = []state.Permissions{state.All, state.All, state.All, state.All, state.Allocate | state.Write, state.Allocate | state.Write, state.Write, state.Write, state.Read, state.Read, state.Allocate, state.None}

func genAction(r *rand.Rand, sponsor int) *ScriptAction {
	a := &ScriptAction{Compute: uint64(r.Intn(5)), Start: -1, End: -1}
	// declared keys: random subset of data keys (+ sometimes a balance key)
	perm := r.Perm(len(dataKeys))
	nk := r.Intn(4)
	for i := 0; i < nk; i++ {
		a.KeysB = append(a.KeysB, dataKeys[perm[i]])
		a.Perms = append(a.Perms, pick(r, permChoices))
	}
	if r.Intn(10) == 0 {
		// touch some account's balance key directly (conflicts with fee deduction of that sponsor)
		a.KeysB = append(a.KeysB, bh.BalanceKey(sponsorAddr(r.Intn(numSponsors))))
		a.Perms = append(a.Perms, pick(r, []state.Permissions{state.Read, state.Write, state.All}))
	}
	nops := r.Intn(6)
	for i := 0; i < nops; i++ {
		var k []byte
		var perm state.Permissions
		if len(a.KeysB) > 0 && r.Intn(12) != 0 {
			x := r.Intn(len(a.KeysB))
			k, perm = a.KeysB[x], a.Perms[x]
		} else {
			k, perm = pick(r, dataKeys), state.All // possibly undeclared
		}
		// mostly choose an op the declared permission allows
		x := r.Intn(10)
		if r.Intn(6) != 0 {
			switch {
			case perm == state.Read || perm == state.Allocate:
				x = 0
			case perm == state.None:
				x = r.Intn(10)
			}
		}
		switch {
		case x < 4:
			a.Ops = append(a.Ops, Op{Kind: OpGet, Key: k, Val: []byte{}})
		case x < 7:
			v := genValue(r)
			if len(k) > 3 { // a balance key: write a well-formed balance
				v = binary.BigEndian.AppendUint64(nil, uint64(r.Intn(1_000_000_000)))
			}
			a.Ops = append(a.Ops, Op{Kind: OpPut, Key: k, Val: v})
		case x < 9:
			a.Ops = append(a.Ops, Op{Kind: OpDel, Key: k, Val: []byte{}})
		default:
			if r.Intn(3) == 0 {
				a.Ops = append(a.Ops, Op{Kind: OpFail, Key: []byte{}, Val: []byte{}})
			} else {
				a.Ops = append(a.Ops, Op{Kind: OpGet, Key: k, Val: []byte{}})
			}
		}
	}
	if r.Intn(4) == 0 {
		// delete / re-create / delete chains on one fully declared key (the shapes that exercise the
		// view's bookkeeping of allocations, explicit deletes and "unchanged" detection)
		k := pick(r, dataKeys)
		found := false
		for i := range a.KeysB {
			if string(a.KeysB[i]) == string(k) {
				a.Perms[i] = state.All
				found = true
			}
		}
		if !found {
			a.KeysB = append(a.KeysB, k)
			a.Perms = append(a.Perms, state.All)
		}
		small := func() []byte { return []byte{byte(1 + r.Intn(3))} }
		chains := [][]Op{
			{{Kind: OpDel, Key: k, Val: []byte{}}, {Kind: OpPut, Key: k, Val: small()}, {Kind: OpDel, Key: k, Val: []byte{}}},
			{{Kind: OpDel, Key: k, Val: []byte{}}, {Kind: OpPut, Key: k, Val: small()}, {Kind: OpPut, Key: k, Val: small()}, {Kind: OpDel, Key: k, Val: []byte{}}, {Kind: OpGet, Key: k, Val: []byte{}}},
			{{Kind: OpPut, Key: k, Val: small()}, {Kind: OpDel, Key: k, Val: []byte{}}, {Kind: OpPut, Key: k, Val: small()}, {Kind: OpGet, Key: k, Val: []byte{}}},
			{{Kind: OpDel, Key: k, Val: []byte{}}, {Kind: OpGet, Key: k, Val: []byte{}}, {Kind: OpPut, Key: k, Val: small()}},
		}
		a.Ops = append(a.Ops, pick(r, chains)...)
		if r.Intn(4) == 0 {
			a.Ops = append(a.Ops, Op{Kind: OpGet, Key: k, Val: []byte{}})
		}
	}
	if r.Intn(300) == 0 {
		a.Start = int64(r.Intn(3)) * 1_000_000
	}
	if r.Intn(300) == 0 {
		a.End = int64(r.Intn(3)) * 1_000_000
	}
	return a
}

func genScenario(r *rand.Rand, prop string) *Scenario {
	s := &Scenario{RootOK: true}
	def := genesis.NewDefaultRules()
	s.Rules = RulesIn{
		MinBlockGap: def.MinBlockGap, MinEmptyBlockGap: def.MinEmptyBlockGap,
		MinUnitPrice: [5]uint64{1, 1, 1, 1, 1}, ChangeDenom: [5]uint64{48, 48, 48, 48, 48},
		Target: [5]uint64{20_000_000, 1000, 1000, 1000, 1000}, MaxBlockUnits: [5]uint64{1_800_000, 2000, 2000, 2000, 2000},
		ValidityWindow: def.ValidityWindow, MaxActions: 4, BaseCompute: 1,
		KeyRead: 5, ValRead: 2, KeyAlloc: 20, ValAlloc: 5, KeyWrite: 10, ValWrite: 3,
	}
	if r.Intn(8) == 0 {
		// tight block limits so that Consume fails for some tx
		s.Rules.MaxBlockUnits = [5]uint64{uint64(600 + r.Intn(3000)), uint64(10 + r.Intn(60)), uint64(40 + r.Intn(300)), uint64(100 + r.Intn(600)), uint64(60 + r.Intn(400))}
	}
	if r.Intn(5) == 0 {
		s.Rules.MinUnitPrice = [5]uint64{uint64(1 + r.Intn(100)), uint64(1 + r.Intn(100)), 100, 100, 100}
	}
	s.ParentH = uint64(r.Intn(50))
	s.ParentTs = uint64(1_000_000 + 1000*r.Intn(1000) + r.Intn(3)*r.Intn(1000))
	s.ParentFee.LastSec = s.ParentTs/1000 - uint64(r.Intn(3))
	for d := 0; d < 5; d++ {
		s.ParentFee.Prices[d] = pick(r, []uint64{0, 1, 1, 100, 100, 1000})
		s.ParentFee.Consumed[d] = pick(r, []uint64{0, 0, 10, 500, 1500, 3000})
		for sl := 0; sl < 10; sl++ {
			if r.Intn(3) == 0 {
				s.ParentFee.Windows[d][sl] = uint64(r.Intn(400))
			}
		}
	}
	if r.Intn(30) == 0 {
		s.ParentFee.Prices[0] = 1 << 62 // fee overflow territory
	}
	// parent data
	for _, k := range dataKeys {
		if r.Intn(2) == 0 {
			v := genValue(r)
			if len(v) > 64*int(k[2]) {
				v = v[:64*int(k[2])]
			}
			s.Parent = append(s.Parent, KV{k, v})
		}
	}
	poor := -1 // at most one sponsor with an absent / small / maximal balance, in a third of the scenarios
	if r.Intn(3) == 0 {
		poor = r.Intn(numSponsors)
	}
	for i := 0; i < numSponsors; i++ {
		if i != poor {
			s.Parent = append(s.Parent, KV{bh.BalanceKey(sponsorAddr(i)), binary.BigEndian.AppendUint64(nil, uint64(1_000_000_000_000+r.Intn(1_000_000_000)))})
			continue
		}
		switch r.Intn(4) {
		case 0: // absent
		case 1:
			s.Parent = append(s.Parent, KV{bh.BalanceKey(sponsorAddr(i)), binary.BigEndian.AppendUint64(nil, uint64(r.Intn(20000)))})
		case 2:
			s.Parent = append(s.Parent, KV{bh.BalanceKey(sponsorAddr(i)), binary.BigEndian.AppendUint64(nil, ^uint64(0))})
		default:
			s.Parent = append(s.Parent, KV{bh.BalanceKey(sponsorAddr(i)), binary.BigEndian.AppendUint64(nil, uint64(100_000+r.Intn(400_000)))})
		}
	}
	gap := pick(r, []int64{100, 100, 750, 1000, 1000, 2000, 9000, 10000, 11000, 25000, 99, 749})
	s.BlockTs = int64(s.ParentTs) + gap
	s.BlockH = s.ParentH + 1
	hdr := r.Intn(40)
	if prop == "C11" {
		hdr = r.Intn(12) // headers are the subject: half of the blocks carry a header defect
		gap = pick(r, []int64{99, 100, 101, 749, 750, 751, 1000, 0, -1000, 10000})
		s.BlockTs = int64(s.ParentTs) + gap
	}
	switch hdr {
	case 0:
		s.BlockH = s.ParentH
	case 1:
		s.BlockH = s.ParentH + 2
	case 2:
		s.RootOK = false
	case 3:
		s.TooLate = true
	case 4:
		s.NoHeight = true
	case 5:
		s.VWDup = true
	}
	ntx := pick(r, []int{0, 1, 2, 3, 4, 6, 8, 12, 20})
	if prop == "C03" || prop == "C07" {
		ntx = pick(r, []int{1, 1, 2, 2, 3, 4})
	}
	if prop == "C11" {
		ntx = pick(r, []int{0, 0, 0, 1, 1, 2})
	}
	badTx := -1 // at most one tx with an injected static defect per block, in a quarter of the blocks
	if ntx > 0 && r.Intn(4) == 0 {
		badTx = r.Intn(ntx)
	}
	for i := 0; i < ntx; i++ {
		sp := r.Intn(numSponsors)
		if sp == poor && r.Intn(3) != 0 {
			sp = (sp + 1) % numSponsors
		}
		t := TxIn{ChainOK: true, MaxFee: uint64(r.Intn(1 << 30)), Sponsor: sp, Actor: sp, AuthOK: true, AuthCompute: uint64(r.Intn(4)), AuthStart: -1, AuthEnd: -1, Nonce: uint64(i)}
		// expiry: aligned, inside [ts, ts+W] mostly
		base := (s.BlockTs/1000 + 1) * 1000
		t.Expiry = base + 1000*int64(r.Intn(50))
		inject := 99
		if i == badTx {
			inject = r.Intn(8)
		}
		if r.Intn(10) == 0 {
			t.Actor = (sp + 1) % numSponsors
		}
		switch inject {
		case 0:
			t.Expiry = base - 2000 // expired
		case 1:
			t.Expiry = base + s.Rules.ValidityWindow + 1000 // too far
		case 2:
			t.Expiry = base + 1 // misaligned
		case 3:
			t.ChainOK = false
		case 4:
			t.AuthOK = false
		case 5:
			t.AuthStart = s.BlockTs + 1
		case 6:
			t.AuthEnd = s.BlockTs - 1
		}
		na := 1 + r.Intn(3)
		if prop == "C03" {
			na = 1 + r.Intn(4)
		}
		if inject == 7 {
			na = int(s.Rules.MaxActions) + 1
		}
		for j := 0; j < na; j++ {
			t.Actions = append(t.Actions, genAction(r, sp))
		}
		if prop == "C03" && r.Intn(3) == 0 {
			// fail after earlier actions (and earlier ops of this action) already wrote and deleted keys
			last := t.Actions[len(t.Actions)-1]
			last.Ops = append(last.Ops, Op{Kind: OpFail, Key: []byte{}, Val: []byte{}})
		}
		if prop == "C07" {
			t.MaxFee = pick(r, []uint64{0, 1, 1000, 20000, 100000, 1 << 30, ^uint64(0)})
		}
		if i == badTx && r.Intn(8) == 0 && len(t.Actions) > 0 {
			// malformed declared key (too short to carry a chunk suffix)
			t.Actions[0].KeysB = append(t.Actions[0].KeysB, []byte{0xEE})
			t.Actions[0].Perms = append(t.Actions[0].Perms, state.Read)
		}
		s.Txs = append(s.Txs, t)
	}
	if len(s.Txs) >= 2 && r.Intn(2) == 0 {
		// hot-key relay: consecutive transactions of the block each get one more action that owns the same key and
		// applies the next step of delete / write-empty / delete / write / read ..., so that a transaction meets a key
		// that an EARLIER transaction of the block deleted, re-created, or set to the empty value (which must stay
		// distinguishable from "absent")
		k := pick(r, dataKeys)
		small := func() []byte { return []byte{byte(1 + r.Intn(3))} }
		rot := [][]Op{
			{{Kind: OpDel, Key: k, Val: []byte{}}},
			{{Kind: OpPut, Key: k, Val: []byte{}}},
			{{Kind: OpDel, Key: k, Val: []byte{}}},
			{{Kind: OpPut, Key: k, Val: []byte{}}},
			{{Kind: OpGet, Key: k, Val: []byte{}}},
			{{Kind: OpPut, Key: k, Val: small()}},
			{{Kind: OpPut, Key: k, Val: []byte{}}},
			{{Kind: OpDel, Key: k, Val: []byte{}}},
			{{Kind: OpPut, Key: k, Val: []byte{}}},
		}
		start := r.Intn(len(rot))
		for i := range s.Txs {
			a := &ScriptAction{Compute: 1, Start: -1, End: -1, KeysB: [][]byte{k}, Perms: []state.Permissions{state.All}}
			a.Ops = append(a.Ops, rot[(start+i)%len(rot)]...)
			a.Ops = append(a.Ops, Op{Kind: OpGet, Key: k, Val: []byte{}})
			if len(s.Txs[i].Actions) < int(s.Rules.MaxActions) {
				s.Txs[i].Actions = append(s.Txs[i].Actions, a)
			} else if n := len(s.Txs[i].Actions); n > 0 && n <= int(s.Rules.MaxActions) {
				s.Txs[i].Actions[n-1] = a
			}
		}
	}
	if r.Intn(5) == 0 {
		s.PreAdmit = true
	}
	if r.Intn(3) == 0 {
		s.UsedProc = true
	}
	if prop == "C01" && r.Intn(6) == 0 {
		// reader hand-off under a controlled schedule: writer N, slow reader R1 (enqueued while N is unexecuted), reader
		// R2 whose enqueueing is delayed until N has finished, then writer W while R1 is still running, then a reader.
		// Four different sponsors, so that only the hot key orders the tasks. Every reader must see N's value.
		k := pick(r, dataKeys)
		mk := func(sp int, ops []Op, perm state.Permissions, sleepKeys, sleepExec int) TxIn {
			base := (s.BlockTs/1000 + 1) * 1000
			a := &ScriptAction{Compute: 1, Start: -1, End: -1, KeysB: [][]byte{k}, Perms: []state.Permissions{perm}, Ops: ops,
				SleepKeys: sleepKeys, SleepExec: sleepExec}
			return TxIn{ChainOK: true, MaxFee: 1 << 30, Sponsor: sp, Actor: sp, AuthOK: true, AuthCompute: 1, AuthStart: -1, AuthEnd: -1,
				Nonce: uint64(len(s.Txs)), Expiry: base + 5000, Actions: []*ScriptAction{a}}
		}
		get := []Op{{Kind: OpGet, Key: k, Val: []byte{}}}
		put := func(b byte) []Op { return []Op{{Kind: OpPut, Key: k, Val: []byte{b}}, {Kind: OpGet, Key: k, Val: []byte{}}} }
		sps := r.Perm(numSponsors)
		s.Txs = append(s.Txs, mk(sps[0], put(0x11), state.All, 0, 0))
		s.Txs = append(s.Txs, mk(sps[1], get, state.Read, 0, 40+r.Intn(30)))
		s.Txs = append(s.Txs, mk(sps[2], get, state.Read, 10+r.Intn(10), 0))
		s.Txs = append(s.Txs, mk(sps[3], put(0x22), state.All, 0, 0))
		s.Txs = append(s.Txs, mk(sps[2], get, state.Read, 0, 0))
	}
	if prop == "C24" && r.Intn(3) == 0 {
		// fault injection: one key of the universe (metadata, data or balance) cannot be read from the parent
		cands := append(append([][]byte{}, metaKeys()...), universeKeys()...)
		s.FailKey = pick(r, cands)
	}
	return s
}

// ---------------------------------------------------------------------------------- Coq printing

func coqN5(a [5]uint64) string {
	items := make([]string, 5)
	for i, x := range a {
		items[i] = emit.N(x)
	}
	return emit.List("N", items)
}

func (f FeeState) coq() string {
	ws := make([]string, 5)
	for d := 0; d < 5; d++ {
		sl := make([]string, 10)
		for i := 0; i < 10; i++ {
			sl[i] = emit.N(f.Windows[d][i])
		}
		ws[d] = emit.List("N", sl)
	}
	return emit.App("mkFee", emit.N(f.LastSec), coqN5(f.Prices), emit.List("list N", ws), coqN5(f.Consumed))
}

func (r RulesIn) coq() string {
	return emit.App("mkRules", emit.Z(r.MinBlockGap), emit.Z(r.MinEmptyBlockGap), coqN5(r.MinUnitPrice), coqN5(r.ChangeDenom), coqN5(r.Target),
		coqN5(r.MaxBlockUnits), emit.Z(r.ValidityWindow), emit.N(uint64(r.MaxActions)), emit.N(r.BaseCompute),
		emit.N(r.KeyRead), emit.N(r.ValRead), emit.N(r.KeyAlloc), emit.N(r.ValAlloc), emit.N(r.KeyWrite), emit.N(r.ValWrite))
}

func (a *ScriptAction) coq() string {
	decl := make([]string, len(a.KeysB))
	for i := range a.KeysB {
		decl[i] = emit.Pair(emit.Bytes(a.KeysB[i]), emit.N(uint64(a.Perms[i])))
	}
	ops := make([]string, len(a.Ops))
	for i, o := range a.Ops {
		switch o.Kind {
		case OpGet:
			ops[i] = emit.App("OGet", emit.Bytes(o.Key))
		case OpPut:
			ops[i] = emit.App("OPut", emit.Bytes(o.Key), emit.Bytes(o.Val))
		case OpDel:
			ops[i] = emit.App("ODel", emit.Bytes(o.Key))
		default:
			ops[i] = "OFail"
		}
	}
	return emit.App("mkAction", emit.N(a.Compute), emit.List("list N * N", decl), emit.List("sop", ops), emit.Z(a.Start), emit.Z(a.End))
}

func (s *Scenario) coqTx(i int, tx *hchain.Transaction) string {
	t := s.Txs[i]
	var acts []string
	if s.Morpheus {
		for _, tr := range t.Transfers {
			from, to := s.balanceKey(t.Actor), s.balanceKey(tr.To)
			decl := []string{emit.Pair(emit.Bytes(from), emit.N(uint64(state.Read|state.Write))), emit.Pair(emit.Bytes(to), emit.N(uint64(state.All)))}
			if string(from) == string(to) {
				decl = decl[1:] // Go map literal with equal keys: the later entry (All) wins
			}
			op := emit.App("OTransfer", emit.Bytes(from), emit.Bytes(to), emit.N(tr.Value), emit.Bool(tr.MemoLen <= mactions.MaxMemoSize))
			acts = append(acts, emit.App("mkAction", emit.N(mactions.TransferComputeUnits), emit.List("list N * N", decl), emit.List("sop", []string{op}), emit.Z(-1), emit.Z(-1)))
		}
	} else {
		for _, a := range t.Actions {
			acts = append(acts, a.coq())
		}
	}
	return emit.App("mkTx", emit.Z(t.Expiry), emit.Bool(t.ChainOK), emit.N(t.MaxFee), emit.Bytes(s.balanceKey(t.Sponsor)), emit.Bool(t.AuthOK), emit.N(t.AuthCompute),
		emit.Z(t.AuthStart), emit.Z(t.AuthEnd), emit.N(uint64(tx.Size())), emit.Bool(s.Morpheus), emit.List("action", acts))
}

func (o Output) coq() string {
	if o.ErrCls != 0 {
		return emit.App("OutErr", emit.N(uint64(o.Config.Cores)), emit.N(o.ErrCls), emit.N(o.ErrSub), emit.BytesList(o.Reads))
	}
	rs := make([]string, len(o.Results))
	for i, r := range o.Results {
		rs[i] = emit.App("mkResult", emit.Bool(r.Success), emit.N(r.ErrCls), emit.N(r.Fee), coqN5(r.Units), emit.BytesList(r.Outputs))
	}
	post := make([]string, len(o.Post))
	for i, kv := range o.Post {
		v := "(@None (list N))"
		if kv.Present {
			v = emit.Some(emit.Bytes(kv.V))
		}
		post[i] = emit.Pair(emit.Bytes(kv.K), v)
	}
	return emit.App("OutOk", emit.N(uint64(o.Config.Cores)), emit.List("result", rs), emit.List("list N * option (list N)", post),
		emit.N(o.PostH), emit.N(o.PostTs), o.PostFee.coq(), coqN5(o.Prices), coqN5(o.Consumed), emit.BytesList(o.Reads))
}

func (s *Scenario) coq(txs []*hchain.Transaction, outs []Output) string {
	parent := make([]string, len(s.Parent))
	for i, kv := range s.Parent {
		parent[i] = emit.Pair(emit.Bytes(kv.K), emit.Bytes(kv.V))
	}
	txc := make([]string, len(s.Txs))
	for i := range s.Txs {
		txc[i] = s.coqTx(i, txs[i])
	}
	oc := make([]string, len(outs))
	for i, o := range outs {
		oc[i] = o.coq()
	}
	uni := s.universeKeys()
	return emit.App("mkCase",
		emit.List("list N * list N", parent), emit.N(s.ParentH), emit.N(s.ParentTs), emit.N(s.parentBlockTs()), s.ParentFee.coq(), emit.Bool(s.NoHeight),
		s.Rules.coq(), emit.Z(s.BlockTs), emit.N(s.BlockH), emit.Bool(s.RootOK), emit.Bool(s.TooLate), emit.Bool(s.VWDup), failKeyCoq(s.FailKey),
		emit.List("tx", txc), emit.BytesList(uni), emit.BytesList(metaKeys()), emit.List("output", oc))
}

func failKeyCoq(k []byte) string {
	if k == nil {
		return "(@None (list N))"
	}
	return emit.Some(emit.Bytes(k))
}

// metadata keys in the order Processor.createBlockContext reads them
func metaKeys() [][]byte {
	mm := metadata.NewDefaultManager()
	return [][]byte{hchain.HeightKey(mm.HeightPrefix()), hchain.TimestampKey(mm.TimestampPrefix()), hchain.FeeKey(mm.FeePrefix())}
}

// ---------------------------------------------------------------------------------- reference VM (C06)

func genMorpheusScenario(r *rand.Rand) *Scenario {
	s := genScenario(r, "C06base")
	s.Morpheus = true
	s.Parent = nil
	s.Txs = nil
	s.TooLate, s.NoHeight, s.VWDup, s.RootOK, s.FailKey = false, false, false, true, nil
	s.BlockH = s.ParentH + 1
	s.BlockTs = int64(s.ParentTs) + pick(r, []int64{100, 1000, 2000})
	s.Rules.MaxActions = 16
	s.Rules.MaxBlockUnits = [5]uint64{1_800_000, 2000, 2000, 2000, 2000}
	for d := 0; d < 5; d++ {
		s.ParentFee.Prices[d] = pick(r, []uint64{0, 1, 1, 100})
	}
	// genesis-like allocation: zero / absent / small / huge balances
	bal := make([]uint64, numSponsors+1)
	for i := 0; i < numSponsors; i++ {
		switch r.Intn(8) {
		case 0: // absent
		case 1:
			bal[i] = uint64(1 + r.Intn(50_000))
		case 2:
			bal[i] = ^uint64(0) - uint64(r.Intn(1000))
		default:
			bal[i] = uint64(1_000_000 + r.Intn(1_000_000_000))
		}
		if bal[i] > 0 {
			s.Parent = append(s.Parent, KV{s.balanceKey(i), binary.BigEndian.AppendUint64(nil, bal[i])})
		}
	}
	ntx := 1 + r.Intn(6)
	for i := 0; i < ntx; i++ {
		sp := r.Intn(numSponsors)
		t := TxIn{ChainOK: true, MaxFee: ^uint64(0), Sponsor: sp, Actor: sp, AuthOK: true, AuthCompute: 1, AuthStart: -1, AuthEnd: -1, Nonce: uint64(i)}
		t.Expiry = (s.BlockTs/1000+1)*1000 + 1000*int64(r.Intn(30))
		na := pick(r, []int{1, 1, 2, 2, 3, 4, 8, 16})
		for j := 0; j < na; j++ {
			to := r.Intn(numSponsors + 1)
			if r.Intn(4) == 0 {
				to = sp // self transfer
			}
			var v uint64
			switch r.Intn(10) {
			case 0:
				v = 0
			case 1:
				v = bal[sp] // (about) everything the account started with
			case 2:
				if bal[sp] > 100_000 {
					v = bal[sp] - uint64(r.Intn(100_000)) // everything but roughly the fee
				}
			case 3:
				v = ^uint64(0)
			case 4:
				v = ^uint64(0) - bal[to%len(bal)] + uint64(r.Intn(3)) // receiver overflow boundary
			default:
				v = uint64(1 + r.Intn(5000))
			}
			t.Transfers = append(t.Transfers, TransferIn{To: to, Value: v, MemoLen: pick(r, []int{0, 0, 5, 256})})
		}
		s.Txs = append(s.Txs, t)
	}
	return s
}

// exactPatterns rewrites the first transaction so that it empties and refills its sponsor's account
// exactly (amounts = balance - fee), which needs the fee: it is learnt from a first execution.
func (s *Scenario) exactPatterns(r *rand.Rand) {
	if len(s.Txs) == 0 {
		return
	}
	sp := s.Txs[0].Sponsor
	var bal uint64
	for _, kv := range s.Parent {
		if string(kv.K) == string(s.balanceKey(sp)) {
			bal = binary.BigEndian.Uint64(kv.V)
		}
	}
	other := (sp + 1 + r.Intn(numSponsors)) % (numSponsors + 1)
	if other == sp {
		other = numSponsors
	}
	shapes := [][]TransferIn{
		{{To: sp, Value: 1}, {To: other, Value: 1}},
		{{To: other, Value: 1}, {To: sp, Value: 1}},
		{{To: sp, Value: 1}, {To: sp, Value: 1}, {To: other, Value: 1}},
		{{To: sp, Value: 1}, {To: other, Value: 1}, {To: other, Value: 1}},
	}
	s.Txs[0].Transfers = pick(r, shapes)
	out, err := s.execute(configs[0])
	if err != nil || out.ErrCls != 0 || len(out.Results) == 0 || bal <= out.Results[0].Fee {
		return
	}
	all := bal - out.Results[0].Fee
	for i := range s.Txs[0].Transfers {
		s.Txs[0].Transfers[i].Value = all
		if r.Intn(6) == 0 {
			s.Txs[0].Transfers[i].Value = all - uint64(r.Intn(3))
		}
	}
	if r.Intn(2) == 0 && other < numSponsors {
		// the account emptied (its record deleted) by the first transaction is refilled by a LATER transaction of the
		// same block, with exactly the balance it had before the block (or one unit off)
		s.Txs[0].Transfers = []TransferIn{{To: other, Value: 1}}
		out1, err1 := s.execute(configs[0]) // the fee of the one-transfer shape
		if err1 != nil || out1.ErrCls != 0 || len(out1.Results) == 0 || bal <= out1.Results[0].Fee {
			return
		}
		all = bal - out1.Results[0].Fee
		s.Txs[0].Transfers[0].Value = all
		refill := TxIn{ChainOK: true, MaxFee: ^uint64(0), Sponsor: other, Actor: other, AuthOK: true, AuthCompute: 1, AuthStart: -1, AuthEnd: -1,
			Nonce: uint64(len(s.Txs)), Expiry: s.Txs[0].Expiry, Transfers: []TransferIn{{To: sp, Value: bal - uint64(r.Intn(6)/5)}}}
		rest := append([]TxIn{refill}, s.Txs[1:]...)
		s.Txs = append(s.Txs[:1:1], rest...)
	}
}

func (s *Scenario) parentBlockTs() uint64 {
	if s.ParentBlockTs != 0 {
		return s.ParentBlockTs
	}
	return s.ParentTs
}
