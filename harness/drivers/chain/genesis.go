package chain

// genesis.go: C27 (genesis state) and the genesis scenarios of C11.

import (
	"context"
	"encoding/binary"
	"errors"
	"math/rand"
	"sort"

	"github.com/ava-labs/avalanchego/database/memdb"
	"github.com/ava-labs/avalanchego/trace"
	"github.com/ava-labs/avalanchego/utils/logging"
	"github.com/ava-labs/avalanchego/x/merkledb"

	hchain "github.com/ava-labs/hypersdk/chain"
	"github.com/ava-labs/hypersdk/fees"
	"github.com/ava-labs/hypersdk/genesis"
	"github.com/ava-labs/hypersdk/state/metadata"
	"github.com/ava-labs/hypersdk/verifharness/emit"
)

type Alloc struct {
	Account int    `json:"account"`
	Balance uint64 `json:"balance"`
}

type GenesisScenario struct {
	Allocs   []Alloc   `json:"allocs"`
	MinPrice [5]uint64 `json:"minPrice"`
	Morpheus bool      `json:"morpheus"`
}

type genesisMirror struct {
	Genesis *GenesisScenario `json:"genesisScenario"`
	Err     string           `json:"err,omitempty"`
	Dump    []KV             `json:"dump"`
	RootOK  bool             `json:"rootOk"`
	BlockTs int64            `json:"blockTs"`
	BlockH  uint64           `json:"blockHeight"`
}

func genGenesisScenario(r *rand.Rand) *GenesisScenario {
	g := &GenesisScenario{Morpheus: r.Intn(2) == 0}
	for d := 0; d < 5; d++ {
		g.MinPrice[d] = pick(r, []uint64{0, 1, 100, 1 << 40, ^uint64(0)})
	}
	n := r.Intn(7)
	for i := 0; i < n; i++ {
		a := Alloc{Account: r.Intn(numSponsors)}
		switch r.Intn(8) {
		case 0:
			a.Balance = 0
		case 1:
			a.Balance = ^uint64(0)
		case 2:
			a.Balance = 1 << 63
		case 3:
			a.Balance = ^uint64(0) - uint64(r.Intn(100))
		default:
			a.Balance = uint64(r.Intn(1_000_000))
		}
		g.Allocs = append(g.Allocs, a)
	}
	return g
}

// genesisCommit runs the real chain.NewGenesisCommit on an empty merkledb.
func genesisCommit(ctx context.Context, g *GenesisScenario) (*hchain.ExecutionBlock, merkledb.View, merkledb.MerkleDB, error) {
	db, err := merkledb.New(ctx, memdb.New(), merkledb.Config{BranchFactor: merkledb.BranchFactor16, Tracer: trace.Noop})
	if err != nil {
		return nil, nil, nil, err
	}
	allocs := make([]*genesis.CustomAllocation, len(g.Allocs))
	for i, a := range g.Allocs {
		allocs[i] = &genesis.CustomAllocation{Address: sponsorAddr(a.Account), Balance: a.Balance}
	}
	gen := genesis.NewDefaultGenesis(allocs)
	rules := genesis.NewDefaultRules()
	rules.MinUnitPrice = fees.Dimensions(g.MinPrice)
	sc := &Scenario{Morpheus: g.Morpheus}
	blk, view, err := hchain.NewGenesisCommit(ctx, db, gen, metadata.NewDefaultManager(), sc.handler(),
		&genesis.ImmutableRuleFactory{Rules: rules}, trace.Noop, &logging.NoLog{})
	return blk, view, db, err
}

func runGenesis(g *GenesisScenario) (emit.Case, error) {
	ctx := context.Background()
	mir := genesisMirror{Genesis: g}
	blk, view, db, gerr := genesisCommit(ctx, g)
	sc := &Scenario{Morpheus: g.Morpheus}
	allocs := make([]string, len(g.Allocs))
	for i, a := range g.Allocs {
		allocs[i] = emit.Pair(emit.Bytes(sc.balanceKey(a.Account)), emit.N(a.Balance))
	}
	mk := metaKeys()
	head := []string{emit.List("list N * N", allocs), coqN5(g.MinPrice), emit.BytesList(mk)}
	if gerr != nil {
		mir.Err = gerr.Error()
		cls := uint64(2)
		if errors.Is(gerr, errors.Unwrap(gerr)) || true {
			// every failure of genesis initialisation is an arithmetic overflow of the supply or of a balance
			cls = 1
		}
		return emit.Case{Coq: emit.App("mkGCase", append(head, emit.App("GErr", emit.N(cls)))...), JSON: mir, Kind: "overflow", Nontrivial: true, Sig: "genesis-state-wrong"}, nil
	}
	// full dump of the genesis state: commit the view and iterate the database
	if err := view.CommitToDB(ctx); err != nil {
		return emit.Case{}, err
	}
	it := db.NewIterator()
	defer it.Release()
	for it.Next() {
		mir.Dump = append(mir.Dump, KV{append([]byte{}, it.Key()...), append([]byte{}, it.Value()...)})
	}
	sort.Slice(mir.Dump, func(i, j int) bool { return string(mir.Dump[i].K) < string(mir.Dump[j].K) })
	root, err := db.GetMerkleRoot(ctx)
	if err != nil {
		return emit.Case{}, err
	}
	mir.RootOK = root == blk.StateRoot
	mir.BlockTs, mir.BlockH = blk.Tmstmp, blk.Hght
	dump := make([]string, len(mir.Dump))
	for i, kv := range mir.Dump {
		dump[i] = emit.Pair(emit.Bytes(kv.K), emit.Bytes(kv.V))
	}
	dups := false
	seen := map[int]bool{}
	for _, a := range g.Allocs {
		if seen[a.Account] {
			dups = true
		}
		seen[a.Account] = true
	}
	return emit.Case{
		Coq:        emit.App("mkGCase", append(head, emit.App("GOk", emit.List("list N * list N", dump), emit.Bool(mir.RootOK), emit.N(blk.Hght)))...),
		JSON:       mir,
		Kind:       "ok",
		Nontrivial: dups || len(g.Allocs) >= 2,
		Sig:        "genesis-state-wrong",
	}, nil
}

// genesisChildScenario (C11): the parent is a real genesis commit; the child header is generated around
// the state timestamp 0 / the genesis HEADER timestamp.
func genGenesisChild(r *rand.Rand) (*Scenario, error) {
	ctx := context.Background()
	g := genGenesisScenario(r)
	g.Morpheus = false
	for d := 0; d < 5; d++ {
		g.MinPrice[d] = 1
	}
	// keep the allocation summable
	for i := range g.Allocs {
		g.Allocs[i].Balance %= 1 << 40
	}
	blk, _, _, err := genesisCommit(ctx, g)
	if err != nil {
		return nil, err
	}
	s := genScenario(r, "C11")
	s.Genesis = g.Allocs
	if s.Genesis == nil {
		s.Genesis = []Alloc{}
	}
	s.Parent = nil
	bal := map[int]uint64{}
	for _, a := range g.Allocs {
		bal[a.Account] += a.Balance
	}
	accts := make([]int, 0, len(bal))
	for a := range bal {
		accts = append(accts, a)
	}
	sort.Ints(accts)
	for _, a := range accts {
		s.Parent = append(s.Parent, KV{s.balanceKey(a), binary.BigEndian.AppendUint64(nil, bal[a])})
	}
	s.ParentH, s.ParentTs, s.ParentBlockTs = 0, 0, uint64(blk.Tmstmp)
	s.ParentFee = FeeState{Prices: g.MinPrice}
	s.NoHeight, s.TooLate, s.VWDup, s.RootOK = false, false, false, true
	s.BlockH = 1
	hdr := uint64(blk.Tmstmp)
	s.BlockTs = pick(r, []int64{0, 99, 100, 749, 750, 1000, 5000, int64(hdr) - 1000, int64(hdr) + 99, int64(hdr) + 100, int64(hdr) + 750, int64(hdr) + 10000})
	s.Txs = nil
	return s, nil
}
