package chain

import (
	"encoding/json"
	"testing"

	"github.com/ava-labs/hypersdk/verifharness/emit"
)

type execMirror struct {
	Scenario *Scenario `json:"scenario"`
	Outputs  []Output  `json:"outputs"`
}

func runExec(t *testing.T, s *Scenario, prop string) emit.Case {
	outs := make([]Output, 0, len(configs))
	for _, cfg := range configs {
		o, err := s.execute(cfg)
		if err != nil {
			t.Fatalf("harness error: %v", err)
		}
		outs = append(outs, o)
	}
	txs, err := s.buildTxs()
	if err != nil {
		t.Fatal(err)
	}
	kind := "ok"
	if outs[0].ErrCls != 0 {
		kind = "err"
	}
	conflicts := false
	seen := map[string]bool{}
	for _, tx := range s.Txs {
		if len(tx.Transfers) >= 2 {
			conflicts = true
		}
		for _, a := range tx.Actions {
			for _, k := range a.KeysB {
				if seen[string(k)] {
					conflicts = true
				}
				seen[string(k)] = true
			}
		}
	}
	sig := map[string]string{
		"C01": "parallel-differs-from-sequential",
		"C03": "tx-not-atomic-or-fee-wrong",
		"C06": "token-supply-not-conserved",
		"C07": "fee-check-other",
		"C11": "accepted-block-does-not-extend-parent",
		"C24": "parent-reads-not-exactly-declared",
	}[prop]
	for _, o := range outs {
		if o.ErrCls == 99 {
			sig = "execute-hang"
		}
		if prop == "C11" && o.ErrCls == 0 && s.Genesis != nil {
			need := s.Rules.MinBlockGap
			if len(s.Txs) == 0 && s.Rules.MinEmptyBlockGap > need {
				need = s.Rules.MinEmptyBlockGap
			}
			// accepted because it satisfies the gap against the STATE timestamp 0, although it is earlier than
			// (genesis header timestamp + gap): the one known finding of C11
			if s.BlockTs < int64(s.parentBlockTs())+need && s.BlockTs >= int64(s.ParentTs)+need && s.BlockH == 1 && s.RootOK {
				sig = "child-of-genesis-checked-against-state-timestamp-0"
			}
		}
		if prop == "C07" && o.ErrCls == 0 {
			for i, r := range o.Results {
				if r.Fee > s.Txs[i].MaxFee {
					sig = "included-tx-fee-gt-maxfee"
				}
			}
		}
	}
	nontrivial := len(s.Txs) >= 2 && conflicts
	if prop == "C11" {
		gap := s.BlockTs - int64(s.ParentTs)
		nontrivial = s.Genesis != nil || !s.RootOK || s.BlockH != s.ParentH+1 || s.TooLate || (gap >= 99 && gap <= 101) || (gap >= 749 && gap <= 751) || gap <= 0
	}
	if prop == "C24" {
		nontrivial = len(s.Txs) >= 2 && (conflicts || s.FailKey != nil)
	}
	return emit.Case{
		Coq:        s.coq(txs, outs),
		JSON:       execMirror{s, outs},
		Nontrivial: nontrivial,
		Kind:       kind,
		Sig:        sig,
	}
}

func TestDriver(t *testing.T) {
	env := emit.GetEnv()
	if env.Out == "" {
		t.Skip("VERIF_OUT not set")
	}
	w, err := emit.NewWriter(env.Out)
	if err != nil {
		t.Fatal(err)
	}
	defer w.Close()
	if env.Mode == "replay" {
		raws, err := emit.ReadReplay(env.Replay)
		if err != nil {
			t.Fatal(err)
		}
		for _, raw := range raws {
			var gm genesisMirror
			if err := json.Unmarshal(raw, &gm); err == nil && gm.Genesis != nil {
				c, err := runGenesis(gm.Genesis)
				if err != nil {
					t.Fatal(err)
				}
				_ = w.Put(c)
				continue
			}
			var bm buildMirror
			if err := json.Unmarshal(raw, &bm); err == nil && bm.Build != nil {
				c, err := runBuild(bm.Build)
				if err != nil {
					t.Fatal(err)
				}
				_ = w.Put(c)
				continue
			}
			var m execMirror
			if err := json.Unmarshal(raw, &m); err != nil {
				t.Fatal(err)
			}
			if m.Scenario == nil {
				continue
			}
			_ = w.Put(runExec(t, m.Scenario, env.Prop))
		}
		return
	}
	r := env.Rand()
	if env.Prop == "C02" {
		for i := 0; i < env.N; i++ {
			c, err := runBuild(genBuildScenario(r))
			if err != nil {
				t.Fatalf("harness error: %v", err)
			}
			_ = w.Put(c)
		}
		return
	}
	if env.Prop == "C27" {
		for i := 0; i < env.N; i++ {
			c, err := runGenesis(genGenesisScenario(r))
			if err != nil {
				t.Fatalf("harness error: %v", err)
			}
			_ = w.Put(c)
		}
		return
	}
	for i := 0; i < env.N; i++ {
		if env.Prop == "C11" && i%3 == 0 {
			gs, err := genGenesisChild(r)
			if err != nil {
				t.Fatalf("harness error: %v", err)
			}
			_ = w.Put(runExec(t, gs, env.Prop))
			continue
		}
		if env.Prop == "C06" {
			ms := genMorpheusScenario(r)
			if r.Intn(2) == 0 {
				ms.exactPatterns(r)
			}
			_ = w.Put(runExec(t, ms, env.Prop))
			continue
		}
		_ = w.Put(runExec(t, genScenario(r, env.Prop), env.Prop))
	}
}
