// Driver for the connection half of C32: the real pubsub.Server + Connection.writePump over a real websocket
// (httptest server, gorilla client).  Messages are published in bursts so that several size-triggered batches wait in
// the outgoing queue while the write pump is busy; every websocket frame the peer receives is one emitted batch and
// must be within the configured maximum size, decode, and carry the accepted messages once and in order.
package wspump

import (
	"encoding/binary"
	"encoding/json"
	"net/http/httptest"
	"strings"
	"testing"
	"time"

	"github.com/ava-labs/avalanchego/utils/logging"
	"github.com/gorilla/websocket"

	"github.com/ava-labs/hypersdk/pubsub"
	"github.com/ava-labs/hypersdk/verifharness/emit"
)

type input struct {
	Max    int `json:"max"`
	Msg    int `json:"msg"`    // payload size (>= 8)
	N      int `json:"n"`      // messages per burst (< MaxPendingMessages)
	Rounds int `json:"rounds"` // bursts
}

type mirror struct {
	input
	Frames   []int  `json:"frames"` // sizes of the received frames (first 64)
	MaxFrame int    `json:"max_frame"`
	Decode   bool   `json:"decode_ok"`
	Order    bool   `json:"order_ok"`
	All      bool   `json:"all_received"`
	Note     string `json:"note,omitempty"`
}

func run(in input) emit.Case {
	m := mirror{input: in, Decode: true, Order: true}
	cfg := pubsub.NewDefaultServerConfig()
	cfg.MaxWriteMessageSize = in.Max
	cfg.MaxPendingMessages = 4096
	cfg.MaxMessageWait = 10 * time.Millisecond
	handler := pubsub.New(logging.NoLog{}, cfg, nil)
	srv := httptest.NewServer(handler)
	defer srv.Close()
	conn, resp, err := websocket.DefaultDialer.Dial("ws"+strings.TrimPrefix(srv.URL, "http"), nil)
	if err != nil {
		m.Note = "dial: " + err.Error()
	} else {
		defer resp.Body.Close()
		defer conn.Close()
		deadline := time.Now().Add(10 * time.Second)
		for handler.Connections().Len() != 1 && time.Now().Before(deadline) {
			time.Sleep(2 * time.Millisecond)
		}
		if handler.Connections().Len() != 1 {
			m.Note = "server never registered the connection"
		} else {
			sc := handler.Connections().Conns()[0]
			next, sent := uint64(0), uint64(0)
			for r := 0; r < in.Rounds && m.Note == ""; r++ {
				for i := 0; i < in.N; i++ {
					msg := make([]byte, in.Msg)
					binary.BigEndian.PutUint64(msg, sent)
					if !sc.Send(msg) {
						m.Note = "Send refused a message"
						break
					}
					sent++
				}
				for next < sent && m.Note == "" {
					_ = conn.SetReadDeadline(time.Now().Add(10 * time.Second))
					_, frame, err := conn.ReadMessage()
					if err != nil {
						m.Note = "read: " + err.Error()
						break
					}
					if len(m.Frames) < 64 {
						m.Frames = append(m.Frames, len(frame))
					}
					if len(frame) > m.MaxFrame {
						m.MaxFrame = len(frame)
					}
					msgs, err := pubsub.ParseBatchMessage(frame)
					if err != nil {
						m.Decode = false
						break
					}
					for _, x := range msgs {
						if len(x) != in.Msg || binary.BigEndian.Uint64(x) != next {
							m.Order = false
						}
						next++
					}
				}
			}
			m.All = next == sent && m.Note == ""
		}
	}
	coq := emit.App("mkW", emit.N(uint64(in.Max)), emit.N(uint64(m.MaxFrame)), emit.Bool(m.Decode), emit.Bool(m.Order), emit.Bool(m.All))
	return emit.Case{Coq: coq, JSON: m, Nontrivial: len(m.Frames) >= 2, Kind: "burst-through-write-pump",
		Sig: "websocket-frame-exceeds-max-size-or-messages-lost"}
}

func TestDriver(t *testing.T) {
	env := emit.GetEnv()
	if env.Out == "" {
		t.Skip("VERIF_OUT not set")
	}
	w, err := emit.NewWriter(env.Out)
	if err != nil {
		t.Fatal(err)
	}
	defer w.Close()
	if env.Mode == "replay" {
		raws, err := emit.ReadReplay(env.Replay)
		if err != nil {
			t.Fatal(err)
		}
		for _, raw := range raws {
			var in input
			if err := json.Unmarshal(raw, &in); err != nil {
				t.Fatal(err)
			}
			_ = w.Put(run(in))
		}
		return
	}
	grid := []input{{1024, 600, 400, 2}, {256, 140, 300, 2}, {64, 40, 200, 2}, {1024, 100, 600, 1}, {128, 8, 500, 1}}
	if env.Tier == "thorough" {
		grid = append(grid, input{4096, 2100, 900, 3}, input{512, 300, 800, 3}, input{100, 47, 600, 3}, input{2048, 1000, 1000, 2})
	}
	for _, in := range grid {
		_ = w.Put(run(in))
	}
}
