// Driver for C17: signatures are non-malleable and bind to the actor's address.
//
// Real code driven: auth.UnmarshalED25519 / UnmarshalSECP256R1 / UnmarshalBLS directly and through a
// codec.TypeParser[chain.Auth], Auth.Bytes / Verify / Actor / Sponsor, the auth factories.
// Inputs: honest auths and their byte / algebraic mutations (see mutations()).  The oracles the Coq side
// needs (sha256 of the signer, blst point validity, the underlying library's verify) are computed here
// directly from the libraries, not through hypersdk.
package authwire

import (
	"context"
	"crypto/ecdsa"
	"crypto/elliptic"
	"crypto/sha256"
	"encoding/binary"
	"encoding/hex"
	"encoding/json"
	"fmt"
	"math/big"
	"math/rand"
	"regexp"
	"strings"
	"testing"

	"filippo.io/edwards25519"
	avabls "github.com/ava-labs/avalanchego/utils/crypto/bls"
	"github.com/hdevalence/ed25519consensus"

	"github.com/ava-labs/hypersdk/auth"
	"github.com/ava-labs/hypersdk/chain"
	"github.com/ava-labs/hypersdk/codec"
	"github.com/ava-labs/hypersdk/crypto/bls"
	"github.com/ava-labs/hypersdk/crypto/ed25519"
	"github.com/ava-labs/hypersdk/crypto/secp256r1"
	"github.com/ava-labs/hypersdk/verifharness/emit"

	stded "crypto/ed25519"
)

// ---- inputs ------------------------------------------------------------------------------------

type Input struct {
	Class  string `json:"class"`  // "parse" | "verify" | "addr"
	Via    int    `json:"via"`    // parse: 0 TypeParser, 1..3 direct Unmarshal of scheme via-1
	Scheme uint8  `json:"scheme"` // scheme of the honest auth this input was derived from
	Key    int    `json:"key"`    // addr: key index
	B      []byte `json:"b"`      // the auth bytes under test
	Msg    []byte `json:"msg"`    // verify: the message the honest auth signed
	Ident  bool   `json:"ident"`  // verify: B is the honest auth itself
	Mut    string `json:"mut"`    // name of the mutation
}

type mirror struct {
	Input
	BHex     string `json:"b_hex"`
	Parsed   bool   `json:"parsed"`
	Verified bool   `json:"verified"`
	Lib      bool   `json:"lib"`
	Back     string `json:"back,omitempty"`
	Actor    string `json:"actor,omitempty"`
	Sponsor  string `json:"sponsor,omitempty"`
	Err      string `json:"err,omitempty"`
}

// ---- keys --------------------------------------------------------------------------------------

const nKeys = 5

var (
	edKeys  [nKeys]ed25519.PrivateKey
	secKeys [nKeys]secp256r1.PrivateKey
	blsKeys [nKeys]*bls.PrivateKey
	p256    = elliptic.P256()
	p256N   = elliptic.P256().Params().N
	p256H   = new(big.Int).Rsh(elliptic.P256().Params().N, 1)
	edL, _  = new(big.Int).SetString("7237005577332262213973186563042994240857116359379907606001950938285454250989", 10)
	parser  = codec.NewTypeParser[chain.Auth]()
)

func init() {
	for i := 0; i < nKeys; i++ {
		seed := make([]byte, 32)
		for j := range seed {
			seed[j] = byte(11*i + 3*j + 5)
		}
		copy(edKeys[i][:], stded.NewKeyFromSeed(seed))
		copy(secKeys[i][:], seed)
		seed[0] = 0
		k, err := bls.PrivateKeyFromBytes(seed)
		if err != nil {
			panic(err)
		}
		blsKeys[i] = k
	}
	for _, e := range []error{
		parser.Register(&auth.ED25519{}, auth.UnmarshalED25519),
		parser.Register(&auth.SECP256R1{}, auth.UnmarshalSECP256R1),
		parser.Register(&auth.BLS{}, auth.UnmarshalBLS),
	} {
		if e != nil {
			panic(e)
		}
	}
}

func factory(t uint8, k int) chain.AuthFactory {
	switch t {
	case auth.ED25519ID:
		return auth.NewED25519Factory(edKeys[k])
	case auth.SECP256R1ID:
		return auth.NewSECP256R1Factory(secKeys[k])
	default:
		return auth.NewBLSFactory(blsKeys[k])
	}
}

func pkLen(t uint8) int  { return []int{32, 33, 48}[t%3] }
func sigLen(t uint8) int { return []int{64, 64, 96}[t%3] }
func size(t uint8) int   { return 1 + pkLen(t) + sigLen(t) }

// ---- library oracles -----------------------------------------------------------------------------

func blsPkOK(b []byte) bool {
	_, err := avabls.PublicKeyFromCompressedBytes(b)
	return err == nil
}

func blsSigOK(b []byte) bool {
	_, err := avabls.SignatureFromBytes(b)
	return err == nil
}

// libVerify: the answer of the underlying library on the (pk, sig) halves of b, without any hypersdk code.
func libVerify(b, msg []byte) bool {
	if len(b) == 0 || b[0] > 2 || len(b) != size(b[0]) {
		return false
	}
	pk, sig := b[1:1+pkLen(b[0])], b[1+pkLen(b[0]):]
	switch b[0] {
	case auth.ED25519ID:
		return ed25519consensus.Verify(stded.PublicKey(pk), msg, sig)
	case auth.SECP256R1ID:
		x, y := elliptic.UnmarshalCompressed(p256, pk)
		if x == nil {
			return false
		}
		d := sha256.Sum256(msg)
		return ecdsa.Verify(&ecdsa.PublicKey{Curve: p256, X: x, Y: y}, d[:], new(big.Int).SetBytes(sig[:32]), new(big.Int).SetBytes(sig[32:]))
	default:
		p, err := avabls.PublicKeyFromCompressedBytes(pk)
		if err != nil {
			return false
		}
		s, err := avabls.SignatureFromBytes(sig)
		if err != nil {
			return false
		}
		return avabls.Verify(p, s, msg)
	}
}

// ---- running one input ---------------------------------------------------------------------------

func fields(a chain.Auth) (pk, sig []byte) {
	switch x := a.(type) {
	case *auth.ED25519:
		return x.Signer[:], x.Signature[:]
	case *auth.SECP256R1:
		return x.Signer[:], x.Signature[:]
	case *auth.BLS:
		if x.Signature != nil {
			sig = bls.SignatureToBytes(x.Signature)
		}
		return bls.PublicKeyToBytes(x.Signer), sig
	}
	return nil, nil
}

func unmarshal(via int, b []byte) (chain.Auth, error) {
	switch via {
	case 1:
		return auth.UnmarshalED25519(b)
	case 2:
		return auth.UnmarshalSECP256R1(b)
	case 3:
		return auth.UnmarshalBLS(b)
	default:
		return parser.Unmarshal(b)
	}
}

func blsOracles(b []byte) (bool, bool) {
	if len(b) != size(auth.BLSID) {
		return false, false
	}
	return blsPkOK(b[1:49]), blsSigOK(b[49:])
}

var digits = regexp.MustCompile(`[0-9]+`)

func run(in Input) emit.Case {
	m := mirror{Input: in, BHex: hex.EncodeToString(in.B)}
	schemeName := []string{"ed25519", "secp256r1", "bls"}[in.Scheme%3]
	mutClass := digits.ReplaceAllString(in.Mut, "")
	switch in.Class {
	case "parse":
		in.Via = ((in.Via % 4) + 4) % 4
		m.Via = in.Via
		pkok, sigok := blsOracles(in.B)
		a, err := unmarshal(in.Via, in.B)
		res := "None"
		var back, actor, sponsor, hpk []byte
		if err == nil {
			m.Parsed = true
			pk, sig := fields(a)
			res = emit.Some(fmt.Sprintf("(%s, %s, %s)", emit.N(uint64(a.GetTypeID())), emit.Bytes(pk), emit.Bytes(sig)))
			back = a.Bytes()
			ac, sp := a.Actor(), a.Sponsor()
			actor, sponsor = ac[:], sp[:]
			h := sha256.Sum256(pk)
			hpk = h[:]
			m.Back, m.Actor, m.Sponsor = hex.EncodeToString(back), hex.EncodeToString(actor), hex.EncodeToString(sponsor)
		} else {
			m.Err = err.Error()
		}
		coq := emit.App("CParse", emit.N(uint64(in.Via)), emit.Bytes(in.B), emit.Bool(pkok), emit.Bool(sigok), res,
			emit.Bytes(back), emit.Bytes(actor), emit.Bytes(sponsor), emit.Bytes(hpk))
		kind := fmt.Sprintf("parse/via%d/%s/%s", in.Via, mutClass, map[bool]string{true: "accepted", false: "rejected"}[m.Parsed])
		return emit.Case{Coq: coq, JSON: m, Nontrivial: len(in.B) > 0, Kind: kind,
			Sig: fmt.Sprintf("auth-roundtrip-or-address-via%d-%s", in.Via, mutClass)}
	case "addr":
		in.Scheme %= 3
		in.Key = ((in.Key % nKeys) + nKeys) % nKeys
		m.Scheme, m.Key = in.Scheme, in.Key
		f := factory(in.Scheme, in.Key)
		var a chain.Auth
		switch in.Scheme {
		case auth.ED25519ID:
			a = &auth.ED25519{Signer: edKeys[in.Key].PublicKey()}
		case auth.SECP256R1ID:
			a = &auth.SECP256R1{Signer: secKeys[in.Key].PublicKey()}
		default:
			a = &auth.BLS{Signer: bls.PublicFromPrivateKey(blsKeys[in.Key])}
		}
		pk, _ := fields(a)
		h := sha256.Sum256(pk)
		ac, sp, fa := a.Actor(), a.Sponsor(), f.Address()
		m.Actor, m.Sponsor = hex.EncodeToString(ac[:]), hex.EncodeToString(sp[:])
		coq := emit.App("CAddr", emit.N(uint64(in.Scheme)), emit.Bytes(pk), emit.Bytes(h[:]), emit.Bytes(ac[:]), emit.Bytes(sp[:]), emit.Bytes(fa[:]))
		return emit.Case{Coq: coq, JSON: m, Nontrivial: true, Kind: "addr/" + schemeName, Sig: "address-binding-" + schemeName}
	default:
		in.Class, m.Class = "verify", "verify"
		pkok, sigok := blsOracles(in.B)
		a, err := parser.Unmarshal(in.B)
		if err == nil {
			m.Parsed = true
			m.Verified = a.Verify(context.Background(), in.Msg) == nil
		} else {
			m.Err = err.Error()
		}
		m.Lib = libVerify(in.B, in.Msg)
		coq := emit.App("CVerify", emit.N(uint64(in.Scheme)), emit.Bool(in.Ident), emit.Bytes(in.B), emit.Bool(pkok), emit.Bool(sigok),
			emit.Bool(m.Parsed), emit.Bool(m.Verified), emit.Bool(m.Lib))
		sig := fmt.Sprintf("malleable-%s-%s", schemeName, strings.TrimPrefix(mutClass, "half-s-"))
		if in.Ident {
			sig = fmt.Sprintf("honest-%s-%s-rejected", schemeName, mutClass)
		}
		outcome := "rejected"
		if m.Verified {
			outcome = "verifies"
		} else if m.Parsed {
			outcome = "parses"
		}
		return emit.Case{Coq: coq, JSON: m, Nontrivial: true, Kind: fmt.Sprintf("verify/%s/%s/%s", schemeName, mutClass, outcome), Sig: sig}
	}
}

// ---- honest auths and their mutations ------------------------------------------------------------

type named struct {
	name string
	b    []byte
}

func clone(b []byte) []byte { return append([]byte{}, b...) }

func fill32(v *big.Int) []byte { return v.FillBytes(make([]byte, 32)) }

func leInt(b []byte) *big.Int {
	r := make([]byte, len(b))
	for i := range b {
		r[len(b)-1-i] = b[i]
	}
	return new(big.Int).SetBytes(r)
}

func leBytes32(v *big.Int) []byte {
	be := fill32(v)
	r := make([]byte, 32)
	for i := range be {
		r[31-i] = be[i]
	}
	return r
}

var torsion8, _ = hex.DecodeString("c7176a703d4dd84fba3c0b760d10670f2a2053fa2c39ccc64ec7fd7792ac037a")
var torsion2, _ = hex.DecodeString("ecffffffffffffffffffffffffffffffffffffffffffffffffffffffffffff7f")

func addTorsion(pt, tor []byte) []byte {
	p, err := new(edwards25519.Point).SetBytes(pt)
	if err != nil {
		return nil
	}
	t, err := new(edwards25519.Point).SetBytes(tor)
	if err != nil {
		return nil
	}
	return new(edwards25519.Point).Add(p, t).Bytes()
}

// secp256r1 honest auth whose s is exactly the half order (boundary of the low-S rule): choose k, r = x(kG),
// s = half and solve for the private key d = (s*k - z) / r.
func craftHalf(msg []byte, salt int64) []byte {
	for i := int64(1); ; i++ {
		k := new(big.Int).SetInt64(salt%1_000_000_007 + 2 + i)
		rx, _ := p256.ScalarBaseMult(k.Bytes())
		r := new(big.Int).Mod(rx, p256N)
		if r.Sign() == 0 {
			continue
		}
		dg := sha256.Sum256(msg)
		z := new(big.Int).SetBytes(dg[:])
		d := new(big.Int).Mul(p256H, k)
		d.Sub(d, z)
		d.Mul(d, new(big.Int).ModInverse(r, p256N))
		d.Mod(d, p256N)
		if d.Sign() == 0 {
			continue
		}
		var priv secp256r1.PrivateKey
		copy(priv[:], fill32(d))
		pk := priv.PublicKey()
		b := []byte{auth.SECP256R1ID}
		b = append(b, pk[:]...)
		b = append(b, fill32(r)...)
		b = append(b, fill32(p256H)...)
		return b
	}
}

// ECDSA key substitution: another public key under which the SAME (r, s) verifies for the same message,
// computed without any private key: Q' = r^-1 (s*(-R) - z*G) with R = (z/s)G + (r/s)Q.
func secpKeySub(b, msg []byte) []byte {
	x, y := elliptic.UnmarshalCompressed(p256, b[1:34])
	if x == nil {
		return nil
	}
	r, s := new(big.Int).SetBytes(b[34:66]), new(big.Int).SetBytes(b[66:98])
	if r.Sign() == 0 || s.Sign() == 0 || r.Cmp(p256N) >= 0 || s.Cmp(p256N) >= 0 {
		return nil
	}
	dg := sha256.Sum256(msg)
	z := new(big.Int).Mod(new(big.Int).SetBytes(dg[:]), p256N)
	w := new(big.Int).ModInverse(s, p256N)
	u1 := new(big.Int).Mod(new(big.Int).Mul(z, w), p256N)
	u2 := new(big.Int).Mod(new(big.Int).Mul(r, w), p256N)
	ax, ay := p256.ScalarBaseMult(fill32(u1))
	bx, by := p256.ScalarMult(x, y, fill32(u2))
	Rx, Ry := p256.Add(ax, ay, bx, by)
	nRy := new(big.Int).Sub(p256.Params().P, Ry) // -R
	sx, sy := p256.ScalarMult(Rx, nRy, fill32(s))
	nz := new(big.Int).Mod(new(big.Int).Neg(z), p256N)
	zx, zy := p256.ScalarBaseMult(fill32(nz))
	tx, ty := p256.Add(sx, sy, zx, zy)
	ri := new(big.Int).ModInverse(r, p256N)
	qx, qy := p256.ScalarMult(tx, ty, fill32(ri))
	out := clone(b)
	copy(out[1:34], elliptic.MarshalCompressed(p256, qx, qy))
	return out
}

func setPK(b []byte, t uint8, pk []byte) []byte {
	out := clone(b)
	copy(out[1:1+pkLen(t)], pk)
	return out
}

func otherPK(t uint8, k int) []byte {
	switch t {
	case auth.ED25519ID:
		p := edKeys[k].PublicKey()
		return p[:]
	case auth.SECP256R1ID:
		p := secKeys[k].PublicKey()
		return p[:]
	default:
		return bls.PublicKeyToBytes(bls.PublicFromPrivateKey(blsKeys[k]))
	}
}

// mutations returns the catalogue of deterministic re-encodings of the honest auth bytes b of scheme t.
func mutations(t uint8, key int, b, msg []byte) []named {
	var out []named
	add := func(name string, x []byte) {
		if x != nil {
			out = append(out, named{name, x})
		}
	}
	so := 1 + pkLen(t) // signature offset
	// generic
	for _, id := range []byte{0, 1, 2, 3, 255} {
		if id != t {
			x := clone(b)
			x[0] = id
			add(fmt.Sprintf("typeid%d", id), x)
		}
	}
	for _, k := range []int{1, 2, 32} {
		add(fmt.Sprintf("trunc%d", k), clone(b[:len(b)-k]))
	}
	add("extend-zero", append(clone(b), 0))
	add("extend-ff", append(clone(b), 0xff))
	add("extend-self", append(clone(b), b...))
	add("pk-other", setPK(b, t, otherPK(t, (key+1)%nKeys)))
	{
		x := clone(b)
		for i := so; i < len(x); i++ {
			x[i] = 0
		}
		add("sig-zero", x)
	}
	switch t {
	case auth.ED25519ID:
		s := leInt(b[so+32:])
		for k := int64(1); k <= 16; k++ {
			v := new(big.Int).Add(s, new(big.Int).Mul(edL, big.NewInt(k)))
			if v.BitLen() <= 256 {
				x := clone(b)
				copy(x[so+32:], leBytes32(v))
				add(fmt.Sprintf("s-plus-%d-l", k), x)
			}
		}
		for _, bit := range []byte{0x80, 0x40, 0x20, 0x10} {
			x := clone(b)
			x[len(x)-1] ^= bit
			add(fmt.Sprintf("s-highbit-%02x", bit), x)
		}
		{
			x := clone(b)
			x[so+31] ^= 0x80
			add("R-signbit", x)
			y := clone(b)
			y[so-1] ^= 0x80
			add("A-signbit", y)
		}
		for i, tor := range [][]byte{torsion8, torsion2} {
			if r := addTorsion(b[so:so+32], tor); r != nil {
				x := clone(b)
				copy(x[so:], r)
				add(fmt.Sprintf("R-plus-torsion-%d", i), x)
			}
			if a := addTorsion(b[1:33], tor); a != nil {
				add(fmt.Sprintf("A-plus-torsion-%d", i), setPK(b, t, a))
			}
		}
	case auth.SECP256R1ID:
		r, s := new(big.Int).SetBytes(b[so:so+32]), new(big.Int).SetBytes(b[so+32:])
		put := func(name string, r, s *big.Int) {
			if r.Sign() < 0 || s.Sign() < 0 || r.BitLen() > 256 || s.BitLen() > 256 {
				return
			}
			x := clone(b)
			copy(x[so:], fill32(r))
			copy(x[so+32:], fill32(s))
			add(name, x)
		}
		put("n-minus-s", r, new(big.Int).Sub(p256N, s))
		put("s-plus-n", r, new(big.Int).Add(s, p256N))
		put("r-plus-n", new(big.Int).Add(r, p256N), s)
		put("n-minus-r", new(big.Int).Sub(p256N, r), s)
		put("n-minus-r-n-minus-s", new(big.Int).Sub(p256N, r), new(big.Int).Sub(p256N, s))
		put("r-zero", big.NewInt(0), s)
		put("s-zero", r, big.NewInt(0))
		put("swap-r-s", s, r)
		for _, p := range []byte{0x02 ^ 0x03 ^ b[1], 0x04, 0x00} {
			x := clone(b)
			x[1] = p
			add(fmt.Sprintf("pk-prefix-%02x", p&0x06), x)
		}
		// Key substitution (a DIFFERENT public key Q' for which the same (r, s) verifies) is not generated as a
		// mutation: another key is another actor address, which C17 does not forbid (see Props/C17.v, observations).
		// The mirror of the substituted key's signature is still a malleation of a valid auth of Q' and must fail.
		if ks := secpKeySub(b, msg); ks != nil {
			rr, ss := new(big.Int).SetBytes(ks[so:so+32]), new(big.Int).SetBytes(ks[so+32:])
			x := clone(ks)
			copy(x[so:], fill32(rr))
			copy(x[so+32:], fill32(new(big.Int).Sub(p256N, ss)))
			add("keysub-n-minus-s", x)
		}
	default:
		for _, bit := range []byte{0x80, 0x40, 0x20} {
			x := clone(b)
			x[1] ^= bit
			add(fmt.Sprintf("pk-flag-%02x", bit), x)
			y := clone(b)
			y[so] ^= bit
			add(fmt.Sprintf("sig-flag-%02x", bit), y)
		}
		{
			// (-pk, -sig) verifies for the same message, but -pk is a different key, hence a different actor: not a
			// C17 violation and not generated (see Props/C17.v, observations)
			y := clone(b)
			for i := 1; i < so; i++ {
				y[i] = 0
			}
			y[1] = 0xc0
			add("pk-infinity", y)
			z := clone(b)
			for i := so; i < len(z); i++ {
				z[i] = 0
			}
			z[so] = 0xc0
			add("sig-infinity", z)
			w := clone(y)
			copy(w[so:], z[so:])
			add("both-infinity", w)
		}
	}
	return out
}

func randomMutation(r *rand.Rand, t uint8, b []byte) named {
	x := clone(b)
	switch r.Intn(4) {
	case 0, 1:
		bit := 8 + r.Intn(8*(len(b)-1))
		x[bit/8] ^= 1 << (bit % 8)
		return named{"bitflip", x}
	case 2:
		x[1+r.Intn(len(b)-1)] = 0xff
		return named{"byte-ff", x}
	default:
		x[1+r.Intn(len(b)-1)] = 0
		return named{"byte-00", x}
	}
}

func honest(r *rand.Rand, t uint8) (b, msg []byte, key int, special string) {
	key = r.Intn(nKeys)
	msg = make([]byte, 1+r.Intn(40))
	r.Read(msg)
	if t == auth.SECP256R1ID && r.Intn(4) == 0 {
		return craftHalf(msg, r.Int63()), msg, key, "half-s"
	}
	a, err := factory(t, key).Sign(msg)
	if err != nil {
		panic(err)
	}
	return a.Bytes(), msg, key, ""
}

func genVerify(r *rand.Rand) Input {
	t := uint8(r.Intn(3))
	b, msg, key, special := honest(r, t)
	in := Input{Class: "verify", Scheme: t, Key: key, Msg: msg}
	pre := ""
	if special != "" {
		pre = special + "-"
	}
	switch c := r.Intn(10); {
	case c == 0:
		in.B, in.Ident, in.Mut = b, true, pre+"identity"
	case c <= 2:
		m := randomMutation(r, t, b)
		in.B, in.Mut = m.b, pre+m.name
	default:
		ms := mutations(t, key, b, msg)
		m := ms[r.Intn(len(ms))]
		in.B, in.Mut = m.b, pre+m.name
	}
	in.Ident = string(in.B) == string(b)
	return in
}

func genParse(r *rand.Rand) Input {
	t := uint8(r.Intn(3))
	in := Input{Class: "parse", Scheme: t}
	switch r.Intn(6) {
	case 0: // through the type parser
		in.Via = 0
	case 1: // another scheme's decoder
		in.Via = 1 + r.Intn(3)
	default:
		in.Via = 1 + int(t)
	}
	if r.Intn(4) == 0 { // arbitrary bytes of a length around the three sizes
		ls := []int{0, 1, 2, 96, 97, 98, 99, 144, 145, 146}
		in.B = make([]byte, ls[r.Intn(len(ls))])
		r.Read(in.B)
		if len(in.B) > 0 && r.Intn(2) == 0 {
			in.B[0] = byte(r.Intn(4))
		}
		in.Mut = "random-bytes"
		return in
	}
	b, msg, key, _ := honest(r, t)
	switch c := r.Intn(8); {
	case c == 0:
		in.B, in.Mut = b, "identity"
	case c <= 2:
		m := randomMutation(r, t, b)
		in.B, in.Mut = m.b, m.name
	case c == 3: // every shorter / longer length is interesting for the exact-size rule
		n := r.Intn(len(b) + 4)
		x := clone(b)
		for len(x) < n {
			x = append(x, byte(r.Intn(256)))
		}
		in.B, in.Mut = x[:n], "resize"
	default:
		ms := mutations(t, key, b, msg)
		m := ms[r.Intn(len(ms))]
		in.B, in.Mut = m.b, m.name
	}
	return in
}

func gen(r *rand.Rand, i int) Input {
	switch x := i % 20; {
	case x == 0:
		return Input{Class: "addr", Scheme: uint8(r.Intn(3)), Key: r.Intn(nKeys)}
	case x < 8:
		return genParse(r)
	default:
		return genVerify(r)
	}
}

func TestDriver(t *testing.T) {
	env := emit.GetEnv()
	if env.Out == "" {
		t.Skip("VERIF_OUT not set")
	}
	w, err := emit.NewWriter(env.Out)
	if err != nil {
		t.Fatal(err)
	}
	defer w.Close()
	if env.Mode == "replay" {
		raws, err := emit.ReadReplay(env.Replay)
		if err != nil {
			t.Fatal(err)
		}
		for _, raw := range raws {
			var in Input
			if err := json.Unmarshal(raw, &in); err != nil {
				t.Fatal(err)
			}
			_ = w.Put(run(in))
		}
		return
	}
	r := env.Rand()
	// always: the whole deterministic catalogue for one honest auth per scheme, every key's addresses
	for t8 := uint8(0); t8 < 3; t8++ {
		for k := 0; k < nKeys; k++ {
			_ = w.Put(run(Input{Class: "addr", Scheme: t8, Key: k}))
		}
		reps := 1
		if env.Tier == "thorough" {
			reps = 20
		}
		for rep := 0; rep < reps; rep++ {
			for _, half := range []bool{false, true} {
				if half && t8 != auth.SECP256R1ID {
					continue
				}
				msg := binary.BigEndian.AppendUint64([]byte("catalogue"), uint64(env.Seed)+uint64(rep))
				key := rep % nKeys
				var b []byte
				pre := ""
				if half {
					b, pre = craftHalf(msg, env.Seed+int64(rep)), "half-s-"
				} else {
					a, err := factory(t8, key).Sign(msg)
					if err != nil {
						t.Fatal(err)
					}
					b = a.Bytes()
				}
				_ = w.Put(run(Input{Class: "verify", Scheme: t8, Key: key, B: b, Msg: msg, Ident: true, Mut: pre + "identity"}))
				_ = w.Put(run(Input{Class: "parse", Via: 0, Scheme: t8, B: b, Mut: "identity"}))
				_ = w.Put(run(Input{Class: "parse", Via: 1 + int(t8), Scheme: t8, B: b, Mut: "identity"}))
				for _, m := range mutations(t8, key, b, msg) {
					_ = w.Put(run(Input{Class: "verify", Scheme: t8, Key: key, B: m.b, Msg: msg, Ident: string(m.b) == string(b), Mut: pre + m.name}))
					if rep == 0 {
						_ = w.Put(run(Input{Class: "parse", Via: 1 + int(t8), Scheme: t8, B: m.b, Mut: m.name}))
					}
				}
				if env.Tier == "thorough" && rep < 2 { // every single-bit flip and every length
					for bit := 0; bit < 8*len(b); bit++ {
						x := clone(b)
						x[bit/8] ^= 1 << (bit % 8)
						_ = w.Put(run(Input{Class: "verify", Scheme: t8, Key: key, B: x, Msg: msg, Mut: pre + "bitflip"}))
					}
					for n := 0; n <= len(b)+3; n++ {
						x := clone(b)
						for len(x) < n {
							x = append(x, 0)
						}
						for via := 0; via < 4; via++ {
							_ = w.Put(run(Input{Class: "parse", Via: via, Scheme: t8, B: x[:n], Mut: "resize"}))
						}
					}
				}
			}
		}
	}
	for i := 0; i < env.N; i++ {
		_ = w.Put(run(gen(r, i)))
	}
}
