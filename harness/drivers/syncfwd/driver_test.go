// Driver for the forward half of C22: the real validitywindow.Syncer when consensus keeps delivering new sync targets
// (UpdateSyncTarget) while every peer asked for historical blocks errors.  Once the forward-accepted blocks span more
// than one validity window the backfill is complete (Wait returns nil) although no peer ever answered; the tracked set
// must then contain every still-valid transaction of the final target's ancestry, and nothing that was never included.
package syncfwd

import (
	"context"
	"encoding/binary"
	"encoding/json"
	"errors"
	"sync"
	"testing"
	"time"

	"github.com/ava-labs/avalanchego/ids"
	"github.com/ava-labs/avalanchego/trace"
	"github.com/ava-labs/avalanchego/utils/logging"

	"github.com/ava-labs/hypersdk/internal/validitywindow"
	"github.com/ava-labs/hypersdk/verifharness/emit"
)

type tx struct {
	id     ids.ID
	expiry int64
}

func (t tx) GetID() ids.ID    { return t.id }
func (t tx) GetExpiry() int64 { return t.expiry }

type block struct {
	id, parent ids.ID
	height     uint64
	ts         int64
	txs        []tx
}

func (b *block) GetID() ids.ID       { return b.id }
func (b *block) GetParent() ids.ID   { return b.parent }
func (b *block) GetTimestamp() int64 { return b.ts }
func (b *block) GetHeight() uint64   { return b.height }
func (b *block) GetContainers() []tx { return b.txs }
func (b *block) GetBytes() []byte    { return binary.BigEndian.AppendUint64(nil, b.height) }
func (b *block) Contains(id ids.ID) bool {
	for _, t := range b.txs {
		if t.id == id {
			return true
		}
	}
	return false
}

type eblk = validitywindow.ExecutionBlock[tx]

type index struct {
	mu     sync.Mutex
	blocks map[ids.ID]eblk
}

func (i *index) GetExecutionBlock(_ context.Context, id ids.ID) (eblk, error) {
	i.mu.Lock()
	defer i.mu.Unlock()
	if b, ok := i.blocks[id]; ok {
		return b, nil
	}
	return nil, errors.New("block not found")
}
func (i *index) SaveHistorical(b eblk) error { i.put(b); return nil }
func (i *index) put(b eblk) {
	i.mu.Lock()
	defer i.mu.Unlock()
	i.blocks[b.GetID()] = b
}

type erroringPeers struct{}

func (erroringPeers) FetchBlocksFromPeer(context.Context, ids.NodeID, *validitywindow.BlockFetchRequest) (*validitywindow.BlockFetchResponse, error) {
	return nil, errors.New("peer unavailable")
}

type sampler struct{}

func (sampler) Sample(context.Context, int) []ids.NodeID { return []ids.NodeID{ids.GenerateTestNodeID()} }

type parser struct{}

func (parser) ParseBlock(context.Context, []byte) (eblk, error) { return nil, errors.New("unparsable") }

type input struct {
	W      int64 `json:"w"`      // validity window
	Step   int64 `json:"step"`   // timestamp distance between consecutive blocks
	Target int   `json:"target"` // height of the first sync target
	Extra  int   `json:"extra"`  // number of UpdateSyncTarget calls (blocks delivered while syncing)
	TxsPer int   `json:"txs"`    // transactions per block
}

type mirror struct {
	input
	WaitOK  bool   `json:"wait_ok"`
	Heights []int  `json:"heights"` // heights of the still-valid on-chain transactions that were queried
	Tracked []bool `json:"tracked"`
	Fresh   bool   `json:"fresh_reported_as_repeat"`
	Note    string `json:"note,omitempty"`
}

func run(in input) emit.Case {
	m := mirror{input: in}
	ctx, cancel := context.WithTimeout(context.Background(), 20*time.Second)
	defer cancel()
	getWindow := func(int64) int64 { return in.W }
	final := in.Target + in.Extra
	n := final + 3
	chain := make([]*block, n)
	parent := ids.Empty
	for h := 0; h < n; h++ {
		b := &block{id: ids.Empty.Prefix(uint64(h) + 1), parent: parent, height: uint64(h), ts: int64(h) * in.Step}
		if h > 0 {
			for k := 0; k < in.TxsPer; k++ {
				// expiries spread over the interval the block may carry: [ts, ts + W]
				e := b.ts + in.W - int64(k)*(in.W/int64(in.TxsPer+1))
				b.txs = append(b.txs, tx{id: ids.Empty.Prefix(1_000_000 + uint64(h)*16 + uint64(k)), expiry: e})
			}
		}
		chain[h] = b
		parent = b.id
	}
	idx := &index{blocks: map[ids.ID]eblk{}}
	idx.put(chain[0])
	idx.put(chain[in.Target])
	tvw, err := validitywindow.NewTimeValidityWindow[tx](ctx, logging.NoLog{}, trace.Noop, idx, chain[0], getWindow)
	if err != nil {
		m.Note = "NewTimeValidityWindow: " + err.Error()
	} else {
		fetcher := validitywindow.NewBlockFetcherClient[eblk](erroringPeers{}, parser{}, sampler{})
		syncer := validitywindow.NewSyncer[tx, eblk](idx, tvw, fetcher, getWindow)
		if err := syncer.Start(ctx, chain[in.Target]); err != nil {
			m.Note = "Start: " + err.Error()
		} else {
			for h := in.Target + 1; h <= final; h++ {
				idx.put(chain[h])
				if err := syncer.UpdateSyncTarget(ctx, chain[h]); err != nil {
					m.Note = "UpdateSyncTarget: " + err.Error()
				}
			}
			werr := syncer.Wait(ctx)
			m.WaitOK = werr == nil
			if werr != nil {
				m.Note = "Wait: " + werr.Error()
			}
			_ = syncer.Close()
			next := chain[final+1]
			idx.put(next)
			tvw.Accept(next)
			buildTS := next.ts + 1
			var cands []tx
			for h := 1; h <= final+1; h++ {
				for _, t := range chain[h].txs {
					if t.expiry >= buildTS {
						cands = append(cands, t)
						m.Heights = append(m.Heights, h)
					}
				}
			}
			cands = append(cands, tx{id: ids.Empty.Prefix(9_999_999), expiry: buildTS + 1})
			rep, err := tvw.IsRepeat(ctx, next, buildTS, cands)
			if err != nil {
				m.Note = "IsRepeat: " + err.Error()
			}
			for i := range m.Heights {
				m.Tracked = append(m.Tracked, err == nil && rep.Contains(i))
			}
			m.Fresh = err == nil && rep.Contains(len(cands)-1)
		}
	}
	tr := make([]string, len(m.Tracked))
	for i, b := range m.Tracked {
		tr[i] = emit.Bool(b)
	}
	coq := emit.App("mkF", emit.N(uint64(in.W)), emit.N(uint64(in.Target)), emit.N(uint64(in.Extra)), emit.Bool(m.WaitOK),
		emit.List("bool", tr), emit.Bool(m.Fresh))
	return emit.Case{Coq: coq, JSON: m, Nontrivial: len(m.Tracked) >= 2, Kind: "forward-sync-completes-the-window",
		Sig: "forward-synced-blocks-not-tracked-after-backfill-completed"}
}

func TestDriver(t *testing.T) {
	env := emit.GetEnv()
	if env.Out == "" {
		t.Skip("VERIF_OUT not set")
	}
	w, err := emit.NewWriter(env.Out)
	if err != nil {
		t.Fatal(err)
	}
	defer w.Close()
	if env.Mode == "replay" {
		raws, err := emit.ReadReplay(env.Replay)
		if err != nil {
			t.Fatal(err)
		}
		for _, raw := range raws {
			var in input
			if err := json.Unmarshal(raw, &in); err != nil {
				t.Fatal(err)
			}
			_ = w.Put(run(in))
		}
		return
	}
	// the forward path completes only when the delivered blocks span more than one window: extra*step > W
	wins := []int64{3, 10}
	if env.Tier == "thorough" {
		wins = []int64{2, 3, 5, 10, 17}
	}
	for _, win := range wins {
		for _, step := range []int64{1, 2} {
			for _, target := range []int{1, 4, 12} {
				for _, over := range []int{1, 2, 5} {
					extra := int(win/step) + over
					_ = w.Put(run(input{W: win, Step: step, Target: target, Extra: extra, TxsPer: 2}))
				}
			}
		}
	}
}
