// Driver for C31: the real api/indexer.Indexer on a pebble store in t.TempDir(), fed with
// chain.ExecutedBlock values built with the chaintest helpers.
//
// A case is a history (initial window; ops Notify(block) / close + NewIndexer(window) on the same
// directory) and, after every op, the answers of GetLatestBlock, GetBlockByHeight (every height
// used), GetBlock (every block id used) and GetTransaction (every tx id used).
package indexer

import (
	"context"
	"encoding/json"
	"errors"
	"fmt"
	"math"
	"math/rand"
	"os"
	"sort"
	"strconv"
	"strings"
	"testing"
	"time"

	"github.com/ava-labs/avalanchego/database"
	"github.com/ava-labs/avalanchego/ids"

	"github.com/ava-labs/hypersdk/api/indexer"
	"github.com/ava-labs/hypersdk/chain"
	"github.com/ava-labs/hypersdk/chain/chaintest"
	"github.com/ava-labs/hypersdk/fees"
	"github.com/ava-labs/hypersdk/verifharness/emit"
)

// ---- block pool ---------------------------------------------------------------------------

const (
	maxHeight   = 40
	numVariants = 3 // 0: the chain's block; 1: a fork at the same height with its own txs; 2: a fork sharing the chain block's txs
	unknownCode = 1000000
)

type poolBlock struct {
	eb    *chain.ExecutedBlock
	h     uint64
	idN   uint64 // small number standing for the block id
	ts    uint64
	txN   []uint64 // small numbers standing for the tx ids
	resN  []uint64 // result values (Result.Fee)
	id    ids.ID
	txIDs []ids.ID
}

var (
	pool    map[[2]uint64]*poolBlock
	txNum   map[ids.ID]uint64
	blkByID map[ids.ID][]*poolBlock
)

func numTxs(h uint64) int { return int(h % 3) }

func buildPool() {
	pool = map[[2]uint64]*poolBlock{}
	txNum = map[ids.ID]uint64{}
	blkByID = map[ids.ID][]*poolBlock{}
	parser := chaintest.NewTestParser()
	chainID := ids.ID{9, 9, 9}
	actions := chaintest.NewDummyTestActions((maxHeight + 1) * 2 * 3)
	next := 0
	var nextTx uint64 = 500
	for h := uint64(0); h <= maxHeight; h++ {
		var chainTxs []*chain.Transaction
		for v := uint64(0); v < numVariants; v++ {
			var txs []*chain.Transaction
			if v == 2 {
				txs = chainTxs
			} else {
				for k := 0; k < numTxs(h); k++ {
					tx, err := chain.NewTransaction(chain.Base{Timestamp: 1000 * int64(h+1), ChainID: chainID, MaxFee: math.MaxUint64},
						[]chain.Action{actions[next]}, chaintest.NewDummyTestAuth())
					if err != nil {
						panic(err)
					}
					next++
					txs = append(txs, tx)
				}
				if v == 0 {
					chainTxs = txs
				}
			}
			ts := int64(100*h + 7*v + 1)
			sb, err := chain.NewStatelessBlock(ids.ID{1, byte(h), byte(v)}, ts, h, txs, ids.Empty, nil)
			if err != nil {
				panic(err)
			}
			// round trip to drop non-persisted members, as the chaintest generator does
			sb, err = chain.UnmarshalBlock(sb.GetBytes(), parser)
			if err != nil {
				panic(err)
			}
			pb := &poolBlock{h: h, idN: 100 + h*numVariants + v, ts: uint64(ts), id: sb.GetID()}
			var results []*chain.Result
			for k, tx := range sb.Txs {
				if _, ok := txNum[tx.GetID()]; !ok {
					txNum[tx.GetID()] = nextTx
					nextTx++
				}
				fee := 10000 + 100*h + 10*v + uint64(k)
				results = append(results, &chain.Result{Success: k%2 == 0, Error: []byte{}, Outputs: [][]byte{{byte(h), byte(k)}}, Fee: fee})
				pb.txN = append(pb.txN, txNum[tx.GetID()])
				pb.resN = append(pb.resN, fee)
				pb.txIDs = append(pb.txIDs, tx.GetID())
			}
			pb.eb = chain.NewExecutedBlock(sb, results, fees.Dimensions{}, fees.Dimensions{})
			pool[[2]uint64{h, v}] = pb
			blkByID[pb.id] = append(blkByID[pb.id], pb)
		}
	}
}

// ---- case ---------------------------------------------------------------------------------

type opT struct {
	K string `json:"op"` // "notify" | "restart"
	H uint64 `json:"h,omitempty"`
	V uint64 `json:"v,omitempty"`
	W uint64 `json:"w,omitempty"`
}

type input struct {
	W0   uint64 `json:"w0"`
	Ops  []opT  `json:"ops"`
	Kind string `json:"kind,omitempty"`
}

type mirror struct {
	input
	Hs   []uint64   `json:"hs"`
	Ids  []uint64   `json:"ids"`
	Txs  []uint64   `json:"txs"`
	Rows [][]uint64 `json:"rows"`
}

func nlist(xs []uint64) string {
	if len(xs) == 0 {
		return "(@nil N)"
	}
	var sb strings.Builder
	sb.WriteString("[")
	for i, x := range xs {
		if i > 0 {
			sb.WriteString(";")
		}
		sb.WriteString(strconv.FormatUint(x, 10))
	}
	sb.WriteString("]%N")
	return sb.String()
}

// what the indexer returned, as a table code: the block must be exactly the pool's
func blockCode(tblIdx map[*poolBlock]int, eb *chain.ExecutedBlock) uint64 {
	if eb == nil || eb.Block == nil {
		return unknownCode + 1
	}
	// an ExecutionResults value with no results and zero dimensions is encoded as absent
	var results []*chain.Result
	if eb.ExecutionResults != nil {
		results = eb.ExecutionResults.Results
	}
	for _, pb := range blkByID[eb.Block.GetID()] {
		if eb.Block.Hght != pb.h || uint64(eb.Block.Tmstmp) != pb.ts || len(eb.Block.Txs) != len(pb.txIDs) ||
			len(results) != len(pb.resN) {
			continue
		}
		ok := true
		for k := range pb.txIDs {
			if eb.Block.Txs[k].GetID() != pb.txIDs[k] || results[k].Fee != pb.resN[k] ||
				results[k].Success != (k%2 == 0) {
				ok = false
			}
		}
		if i, in := tblIdx[pb]; ok && in {
			return uint64(i) + 1
		}
	}
	return unknownCode + 1
}

func errClassLatest(err error) uint64 {
	switch {
	case err == nil:
		return 0
	case errors.Is(err, database.ErrNotFound):
		return 1
	case strings.Contains(err.Error(), "block not found"):
		return 2
	default:
		return 3
	}
}

func run(t *testing.T, in input) emit.Case {
	ch := make(chan emit.Case, 1)
	go func() { ch <- runInner(t, in) }()
	select {
	case c := <-ch:
		return c
	case <-time.After(120 * time.Second):
		// a hang is a failing case: empty rows never match the model
		return emit.Case{Coq: "(mk 1%N (@nil _) [(0,0)]%N (@nil N) (@nil N) (@nil N) (@nil (list N)))", JSON: in, Kind: in.Kind, Sig: "indexer-hung"}
	}
}

func runInner(t *testing.T, in input) emit.Case {
	ctx := context.Background()
	// table + probe universes
	var table []*poolBlock
	tblIdx := map[*poolBlock]int{}
	hset := map[uint64]bool{0: true}
	for _, o := range in.Ops {
		if o.K != "notify" {
			continue
		}
		pb := pool[[2]uint64{o.H, o.V}]
		if pb == nil {
			panic(fmt.Sprintf("no pool block %d/%d", o.H, o.V))
		}
		if _, ok := tblIdx[pb]; !ok {
			tblIdx[pb] = len(table)
			table = append(table, pb)
		}
		hset[o.H] = true
		if o.H >= in.W0 {
			hset[o.H-in.W0] = true
		}
	}
	var hs, idsU, txsU []uint64
	for h := range hset {
		hs = append(hs, h)
	}
	sort.Slice(hs, func(a, b int) bool { return hs[a] < hs[b] })
	hs = append(hs, 777777)
	idOf := map[uint64]ids.ID{}
	txOf := map[uint64]ids.ID{}
	for _, pb := range table {
		idOf[pb.idN] = pb.id
		for k, n := range pb.txN {
			txOf[n] = pb.txIDs[k]
		}
	}
	for n := range idOf {
		idsU = append(idsU, n)
	}
	sort.Slice(idsU, func(a, b int) bool { return idsU[a] < idsU[b] })
	for n := range txOf {
		txsU = append(txsU, n)
	}
	sort.Slice(txsU, func(a, b int) bool { return txsU[a] < txsU[b] })
	idsU = append(idsU, 888888)
	idOf[888888] = ids.ID{0xee}
	txsU = append(txsU, 999999)
	txOf[999999] = ids.ID{0xdd}

	// one scratch directory per case, removed when the case ends (t.TempDir() would keep every
	// case's pebble files until the whole run finishes)
	dir, err := os.MkdirTemp(t.TempDir(), "case")
	if err != nil {
		panic(err)
	}
	defer os.RemoveAll(dir)
	parser := chaintest.NewTestParser()
	ix, err := indexer.NewIndexer(dir, parser, in.W0)
	if err != nil {
		panic(err)
	}
	defer func() { _ = ix.Close() }()

	var rows [][]uint64
	var opsS []string
	// what went wrong, from the observations alone (first failure class seen wins)
	sig := ""
	setSig := func(s string) {
		if sig == "" {
			sig = s
		}
	}
	curW := in.W0
	var prevLatest uint64
	hasPrevLatest := false
	for _, o := range in.Ops {
		var opErr uint64
		sameWindowRestart := false
		switch o.K {
		case "notify":
			pb := pool[[2]uint64{o.H, o.V}]
			if err := ix.Notify(ctx, pb.eb); err != nil {
				opErr = 1
			}
			opsS = append(opsS, fmt.Sprintf("(0,%d)", tblIdx[pb]))
		case "restart":
			if err := ix.Close(); err != nil {
				opErr = 2
			}
			n, err := indexer.NewIndexer(dir, parser, o.W)
			if err != nil {
				panic(err) // windows are always valid; a failure here means the store is unusable
			}
			ix = n
			sameWindowRestart = o.W == curW
			curW = o.W
			opsS = append(opsS, fmt.Sprintf("(1,%d)", o.W))
		default:
			panic("bad op")
		}
		row := []uint64{opErr}
		lb, err := ix.GetLatestBlock()
		row = append(row, errClassLatest(err))
		if err == nil {
			row = append(row, blockCode(tblIdx, lb))
			if lb != nil && lb.Block != nil {
				if hasPrevLatest && lb.Block.Hght < prevLatest {
					setSig("latest-block-moved-backwards")
				}
				prevLatest, hasPrevLatest = lb.Block.Hght, true
			}
		} else {
			row = append(row, 0)
			if hasPrevLatest {
				setSig("latest-block-lost")
			}
		}
		served := uint64(0)
		for _, h := range hs {
			b, err := ix.GetBlockByHeight(h)
			if err != nil {
				row = append(row, 0)
			} else {
				row = append(row, blockCode(tblIdx, b))
				served++
			}
		}
		if served > curW {
			setSig("more-than-window-heights-served")
		}
		for _, n := range idsU {
			b, err := ix.GetBlock(idOf[n])
			if err != nil {
				row = append(row, 0)
			} else {
				row = append(row, blockCode(tblIdx, b))
			}
		}
		for _, n := range txsU {
			found, tx, ts, res, err := ix.GetTransaction(txOf[n])
			switch {
			case err != nil:
				row = append(row, 1, 0, 0)
			case !found:
				row = append(row, 0, 0, 0)
			default:
				tn, ok := txNum[tx.GetID()]
				if !ok {
					tn = unknownCode
				}
				row = append(row, tn+2, uint64(ts), res.Fee)
			}
		}
		if sameWindowRestart && len(rows) > 0 && !equalRows(rows[len(rows)-1], row) {
			setSig("restart-changed-answers")
		}
		rows = append(rows, row)
	}

	var blkS []string
	for _, pb := range table {
		blkS = append(blkS, fmt.Sprintf("(%d,%d,%d,%s,%s)", pb.h, pb.idN, pb.ts, nlistIn(pb.txN), nlistIn(pb.resN)))
	}
	var rowS []string
	for _, r := range rows {
		rowS = append(rowS, nlist(r))
	}
	blks := "(@nil (N*N*N*list N*list N))"
	if len(blkS) > 0 {
		blks = "[" + strings.Join(blkS, ";") + "]%N"
	}
	ops := "(@nil (N*N))"
	if len(opsS) > 0 {
		ops = "[" + strings.Join(opsS, ";") + "]%N"
	}
	coq := emit.App("mk", emit.N(in.W0), blks, ops, nlist(hs), nlist(idsU), nlist(txsU), emit.List("list N", rowS))
	if sig == "" {
		sig = "window-answers-wrong"
	}
	return emit.Case{Coq: coq, JSON: mirror{in, hs, idsU, txsU, rows}, Nontrivial: len(in.Ops) >= 3, Kind: in.Kind, Sig: sig}
}

func equalRows(a, b []uint64) bool {
	if len(a) != len(b) {
		return false
	}
	for i := range a {
		if a[i] != b[i] {
			return false
		}
	}
	return true
}

// a list inside an already %N-delimited term
func nlistIn(xs []uint64) string {
	if len(xs) == 0 {
		return "(@nil N)"
	}
	s := make([]string, len(xs))
	for i, x := range xs {
		s[i] = strconv.FormatUint(x, 10)
	}
	return "[" + strings.Join(s, ";") + "]"
}

// ---- generators -------------------------------------------------------------------------

func pickW(r *rand.Rand) uint64 { return uint64(1 + r.Intn(4)) }

func nfy(h, v uint64) opT { return opT{K: "notify", H: h, V: v} }

// monotone history: consecutive / gap / repeat deliveries, restarts with probability 1/p (p = 0: after every op)
func genMonotone(r *rand.Rand, p int, sameW bool, kind string) input {
	w := pickW(r)
	in := input{W0: w, Kind: kind}
	n := 4 + r.Intn(12)
	h := uint64(r.Intn(3))
	first := true
	for i := 0; i < n; i++ {
		if !first {
			switch x := r.Intn(10); {
			case x < 6:
				h++
			case x < 8:
				// gap, biased to the window boundary
				switch r.Intn(3) {
				case 0:
					h += w
				case 1:
					h += w + 1
				default:
					h += 2 + uint64(r.Intn(5))
				}
			default: // repeated delivery
			}
		}
		first = false
		if h > maxHeight {
			break
		}
		in.Ops = append(in.Ops, nfy(h, 0))
		if p == 0 || r.Intn(p) == 0 {
			nw := w
			if !sameW && r.Intn(2) == 0 {
				nw = pickW(r)
			}
			in.Ops = append(in.Ops, opT{K: "restart", W: nw})
			w = nw
			if r.Intn(6) == 0 {
				in.Ops = append(in.Ops, opT{K: "restart", W: w})
			}
		}
	}
	return in
}

// crash-recovery shaped: a run, a restart, then re-delivery starting at or below the last height
func genRedelivery(r *rand.Rand) input {
	w := pickW(r)
	in := input{W0: w, Kind: "older-redelivery"}
	n := 3 + r.Intn(8)
	start := uint64(r.Intn(3))
	for h := start; h < start+uint64(n); h++ {
		in.Ops = append(in.Ops, nfy(h, 0))
	}
	last := start + uint64(n) - 1
	if r.Intn(3) != 0 {
		in.Ops = append(in.Ops, opT{K: "restart", W: w})
	}
	back := uint64(1 + r.Intn(3))
	if back > last {
		back = last
	}
	for h := last - back; h <= last+2 && h <= maxHeight; h++ {
		in.Ops = append(in.Ops, nfy(h, 0))
		if r.Intn(4) == 0 {
			in.Ops = append(in.Ops, opT{K: "restart", W: w})
		}
	}
	return in
}

// one chain, any delivery order: a forward walk (consecutive / gaps) in which older heights are delivered
// again and again, biased to the window boundary below the highest height so far (top-1, the lowest height
// inside the window, the window floor, one below the floor), heights skipped by a gap included; restarts anywhere
func genOlderMix(r *rand.Rand) input {
	w := pickW(r)
	in := input{W0: w, Kind: "older-mix"}
	n := 5 + r.Intn(14)
	top := uint64(r.Intn(4))
	in.Ops = append(in.Ops, nfy(top, 0))
	delivered := []uint64{top}
	for i := 0; i < n; i++ {
		switch x := r.Intn(12); {
		case x < 4: // forward
			switch r.Intn(6) {
			case 0:
				top += w
			case 1:
				top += w + 1
			case 2:
				top += 2
			default:
				top++
			}
			if top > maxHeight {
				return in
			}
			in.Ops = append(in.Ops, nfy(top, 0))
			delivered = append(delivered, top)
		case x < 10: // older (or the same) height again
			var d uint64
			switch r.Intn(7) {
			case 0:
				d = 0
			case 1:
				d = 1
			case 2:
				d = w - 1
			case 3:
				d = w
			case 4:
				d = w + 1
			case 5:
				d = top - delivered[r.Intn(len(delivered))]
			default:
				d = uint64(r.Intn(int(w) + 3))
			}
			if d > top {
				d = top
			}
			in.Ops = append(in.Ops, nfy(top-d, 0))
			delivered = append(delivered, top-d)
		default:
			in.Ops = append(in.Ops, opT{K: "restart", W: w})
		}
	}
	return in
}

// arbitrary: any heights, forks, shared transactions (model tie only)
func genWild(r *rand.Rand) input {
	w := pickW(r)
	in := input{W0: w, Kind: "wild"}
	n := 4 + r.Intn(12)
	for i := 0; i < n; i++ {
		if r.Intn(5) == 0 {
			in.Ops = append(in.Ops, opT{K: "restart", W: pickW(r)})
			continue
		}
		h := uint64(r.Intn(9))
		v := uint64(0)
		if r.Intn(3) == 0 {
			v = uint64(r.Intn(numVariants))
		}
		in.Ops = append(in.Ops, nfy(h, v))
	}
	return in
}

func gen(r *rand.Rand) input {
	switch x := r.Intn(24); {
	case x < 5:
		return genMonotone(r, 4, true, "monotone-restarts")
	case x < 7:
		return genMonotone(r, 0, true, "restart-after-every-notify")
	case x < 10:
		return genMonotone(r, 3, false, "monotone-window-changes")
	case x < 12:
		return genMonotone(r, 1000, true, "monotone-no-restart")
	case x < 15:
		return genRedelivery(r)
	case x < 21:
		return genOlderMix(r)
	default:
		return genWild(r)
	}
}

// exhaustive: every sequence of <= depth symbolic ops {next, repeat top, gap of W, gap of W+1, restart,
// older: top-1, lowest height inside the window (top-W+1), window floor (top-W)} for windows 1..maxW;
// heights are relative to the highest height delivered so far
func enumerate(depth int, maxW uint64, emitF func(input)) {
	for w := uint64(1); w <= maxW; w++ {
		var rec func(ops []opT, top uint64, has bool, d int)
		rec = func(ops []opT, top uint64, has bool, d int) {
			if len(ops) > 0 {
				emitF(input{W0: w, Ops: append([]opT{}, ops...), Kind: "exhaustive"})
			}
			if d == depth {
				return
			}
			for s := 0; s < 8; s++ {
				h := top
				switch s {
				case 0:
					if has {
						h = top + 1
					}
				case 1:
					if !has {
						continue
					}
				case 2:
					h = top + w
					if !has || w == 1 {
						continue
					}
				case 3:
					h = top + w + 1
				case 4:
					if !has {
						continue
					}
					rec(append(ops, opT{K: "restart", W: w}), top, has, d+1)
					continue
				case 5: // older by one (for W = 1 this is the window floor)
					if !has || top < 1 {
						continue
					}
					h = top - 1
				case 6: // lowest height inside the window
					if !has || w < 3 || top+1 < w {
						continue
					}
					h = top + 1 - w
				case 7: // window floor
					if !has || w < 2 || top < w {
						continue
					}
					h = top - w
				}
				if h > maxHeight {
					continue
				}
				nt := top
				if !has || h > top {
					nt = h
				}
				rec(append(ops, nfy(h, 0)), nt, true, d+1)
			}
		}
		rec(nil, 0, false, 0)
	}
}

func TestDriver(t *testing.T) {
	env := emit.GetEnv()
	if env.Out == "" {
		t.Skip("VERIF_OUT not set")
	}
	// keep the pebble directories of t.TempDir() on tmpfs when there is one: every Notify is a synced
	// batch, and on a shared disk the fsyncs dominate the run time
	if st, err := os.Stat("/dev/shm"); err == nil && st.IsDir() && os.Getenv("VERIF_KEEP_TMPDIR") == "" {
		_ = os.Setenv("TMPDIR", "/dev/shm")
	}
	buildPool()
	w, err := emit.NewWriter(env.Out)
	if err != nil {
		t.Fatal(err)
	}
	defer w.Close()
	put := func(in input) { _ = w.Put(run(t, in)) }
	if env.Mode == "replay" {
		raws, err := emit.ReadReplay(env.Replay)
		if err != nil {
			t.Fatal(err)
		}
		for _, raw := range raws {
			var in input
			if err := json.Unmarshal(raw, &in); err != nil {
				t.Fatal(err)
			}
			put(in)
		}
		return
	}
	r := env.Rand()
	if env.Tier == "thorough" {
		enumerate(4, 3, put)
	} else {
		enumerate(3, 3, put)
	}
	for i := 0; i < env.N; i++ {
		put(gen(r))
	}
}
