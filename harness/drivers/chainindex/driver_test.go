// Driver for C19: the real chainindex.ChainIndex on an avalanchego memdb with a trivial block type.
//
// A case is a history (initial window, ops accept / SaveHistorical / restart with a new window and
// compaction frequency) plus, after every op, the error class of the op and the answers of
// GetLastAcceptedHeight, GetBlockByHeight, GetBlockIDAtHeight, GetBlockIDHeight, GetBlock on every
// height / id used anywhere in the history (plus unused ones), plus the raw key count per prefix.
package chainindex

import (
	"context"
	"encoding/binary"
	"encoding/json"
	"errors"
	"fmt"
	"math/rand"
	"sort"
	"strconv"
	"strings"
	"testing"

	"github.com/ava-labs/avalanchego/database"
	"github.com/ava-labs/avalanchego/database/memdb"
	"github.com/ava-labs/avalanchego/ids"
	"github.com/ava-labs/avalanchego/utils/logging"
	"github.com/prometheus/client_golang/prometheus"

	"github.com/ava-labs/hypersdk/chainindex"
	"github.com/ava-labs/hypersdk/verifharness/emit"
)

// ---- trivial block ----------------------------------------------------------------------

type tblock struct{ H, ID, D uint64 }

func mkID(i uint64) ids.ID {
	var x ids.ID
	for k := range x {
		x[k] = 0x5a
	}
	binary.BigEndian.PutUint64(x[24:], i)
	return x
}

func unID(x ids.ID) (uint64, bool) {
	for k := 0; k < 24; k++ {
		if x[k] != 0x5a {
			return 0, false
		}
	}
	return binary.BigEndian.Uint64(x[24:]), true
}

func (b *tblock) GetID() ids.ID     { return mkID(b.ID) }
func (b *tblock) GetHeight() uint64 { return b.H }
func (b *tblock) GetBytes() []byte {
	out := make([]byte, 24)
	binary.BigEndian.PutUint64(out[0:], b.H)
	binary.BigEndian.PutUint64(out[8:], b.ID)
	binary.BigEndian.PutUint64(out[16:], b.D)
	return out
}

type parser struct{}

func (parser) ParseBlock(_ context.Context, b []byte) (*tblock, error) {
	if len(b) != 24 {
		return nil, fmt.Errorf("bad block length %d", len(b))
	}
	return &tblock{binary.BigEndian.Uint64(b[0:]), binary.BigEndian.Uint64(b[8:]), binary.BigEndian.Uint64(b[16:])}, nil
}

// ---- case ---------------------------------------------------------------------------------

type opT struct {
	K string `json:"op"` // "accept" | "save" | "restart"
	H uint64 `json:"h,omitempty"`
	I uint64 `json:"id,omitempty"`
	D uint64 `json:"d,omitempty"`
	W uint64 `json:"w,omitempty"`
	F uint64 `json:"f,omitempty"`
}

type input struct {
	W0   uint64 `json:"w0"`
	Ops  []opT  `json:"ops"`
	Kind string `json:"kind,omitempty"`
}

type mirror struct {
	input
	Mode int        `json:"mode"`
	Hs   []uint64   `json:"hs"`
	Ids  []uint64   `json:"ids"`
	Rows [][]uint64 `json:"rows"`
}

const unknownCode = 1000000

func errClass(err error) uint64 {
	switch {
	case err == nil:
		return 0
	case errors.Is(err, database.ErrNotFound):
		return 1
	default:
		return 2
	}
}

func countPrefix(db database.Database, p byte) uint64 {
	it := db.NewIteratorWithPrefix([]byte{p})
	defer it.Release()
	var n uint64
	for it.Next() {
		n++
	}
	return n
}

func heightsWithPrefix2(db database.Database) []uint64 {
	it := db.NewIteratorWithPrefix([]byte{2})
	defer it.Release()
	var out []uint64
	for it.Next() {
		k := it.Key()
		if len(k) == 9 {
			out = append(out, binary.BigEndian.Uint64(k[1:]))
		}
	}
	return out
}

func nlist(xs []uint64) string {
	if len(xs) == 0 {
		return "(@nil N)"
	}
	var sb strings.Builder
	sb.WriteString("[")
	for i, x := range xs {
		if i > 0 {
			sb.WriteString(";")
		}
		sb.WriteString(strconv.FormatUint(x, 10))
	}
	sb.WriteString("]%N")
	return sb.String()
}

func triples(xs [][3]uint64) string {
	if len(xs) == 0 {
		return "(@nil (N*N*N))"
	}
	var sb strings.Builder
	sb.WriteString("[")
	for i, x := range xs {
		if i > 0 {
			sb.WriteString(";")
		}
		fmt.Fprintf(&sb, "(%d,%d,%d)", x[0], x[1], x[2])
	}
	sb.WriteString("]%N")
	return sb.String()
}

func run(in input) []emit.Case {
	ctx := context.Background()
	// block table, probe universes
	var table [][3]uint64
	tblIdx := map[[3]uint64]int{}
	hset := map[uint64]bool{0: true}
	iset := map[uint64]bool{}
	for _, o := range in.Ops {
		if o.K == "restart" {
			continue
		}
		k := [3]uint64{o.H, o.I, o.D}
		if _, ok := tblIdx[k]; !ok {
			tblIdx[k] = len(table)
			table = append(table, k)
		}
		hset[o.H] = true
		iset[o.I] = true
	}
	var hs, idsU []uint64
	for h := range hset {
		if h != 0 {
			hs = append(hs, h)
		}
	}
	sort.Slice(hs, func(a, b int) bool { return hs[a] < hs[b] })
	hs = append([]uint64{0}, hs...)
	for i := range iset {
		idsU = append(idsU, i)
	}
	sort.Slice(idsU, func(a, b int) bool { return idsU[a] < idsU[b] })
	// unused probes
	hs = append(hs, 777777)
	idsU = append(idsU, 888888)

	db := memdb.New()
	newCI := func(w, f uint64) (*chainindex.ChainIndex[*tblock], error) {
		return chainindex.New[*tblock](ctx, logging.NoLog{}, prometheus.NewRegistry(),
			chainindex.Config{AcceptedBlockWindow: w, BlockCompactionFrequency: f}, parser{}, db)
	}
	ci, err := newCI(in.W0, 1+in.W0%3)
	if err != nil {
		panic(err)
	}

	blkCode := func(b *tblock, err error, other *uint64) uint64 {
		switch errClass(err) {
		case 1:
			return 0
		case 2:
			*other = 1
			return 0
		}
		if i, ok := tblIdx[[3]uint64{b.H, b.ID, b.D}]; ok {
			return uint64(i) + 1
		}
		return unknownCode + 1
	}

	var rows [][]uint64
	var opsT [][3]uint64
	// bookkeeping for the bound classification
	curW := in.W0
	lastWrite := map[uint64]int{} // height -> op index of last write
	type ev struct {
		idx    int
		accept bool
		h, w   uint64 // accept: height, window ; restart: last, window
		hasL   bool
	}
	var events []ev
	var lastAcc uint64
	hasLast := false
	boundExceeded := false
	boundSig := ""
	sig := "window-or-consistency-violated"

	for idx, o := range in.Ops {
		var e error
		switch o.K {
		case "accept":
			b := &tblock{o.H, o.I, o.D}
			e = ci.UpdateLastAccepted(ctx, b)
			opsT = append(opsT, [3]uint64{0, uint64(tblIdx[[3]uint64{o.H, o.I, o.D}]), 0})
			if e != nil && sig == "window-or-consistency-violated" {
				sig = fmt.Sprintf("accept-failed-errclass-%d", errClass(e))
			}
			if e == nil {
				lastWrite[o.H] = idx
				lastAcc, hasLast = o.H, true
				events = append(events, ev{idx, true, o.H, curW, true})
			}
		case "save":
			b := &tblock{o.H, o.I, o.D}
			e = ci.SaveHistorical(b)
			opsT = append(opsT, [3]uint64{1, uint64(tblIdx[[3]uint64{o.H, o.I, o.D}]), 0})
			if e == nil {
				lastWrite[o.H] = idx
			}
		case "restart":
			var n *chainindex.ChainIndex[*tblock]
			n, e = newCI(o.W, o.F)
			if e == nil {
				ci = n
				curW = o.W
				events = append(events, ev{idx, false, lastAcc, o.W, hasLast})
			}
			opsT = append(opsT, [3]uint64{2, o.W, o.F})
		default:
			panic("bad op " + o.K)
		}
		var other uint64
		row := []uint64{errClass(e), 0, 0, countPrefix(db, 0), countPrefix(db, 1), countPrefix(db, 2)}
		if l, err := ci.GetLastAcceptedHeight(ctx); err == nil {
			row[1] = l + 1
		} else if errClass(err) == 2 {
			other = 1
		}
		for _, h := range hs {
			b, err := ci.GetBlockByHeight(ctx, h)
			row = append(row, blkCode(b, err, &other))
		}
		for _, h := range hs {
			id, err := ci.GetBlockIDAtHeight(ctx, h)
			switch errClass(err) {
			case 0:
				if v, ok := unID(id); ok {
					row = append(row, v+1)
				} else {
					row = append(row, unknownCode+1)
				}
			case 1:
				row = append(row, 0)
			default:
				other = 1
				row = append(row, 0)
			}
		}
		for _, i := range idsU {
			h, err := ci.GetBlockIDHeight(ctx, mkID(i))
			switch errClass(err) {
			case 0:
				row = append(row, h+1)
			case 1:
				row = append(row, 0)
			default:
				other = 1
				row = append(row, 0)
			}
		}
		for _, i := range idsU {
			b, err := ci.GetBlock(ctx, mkID(i))
			row = append(row, blkCode(b, err, &other))
		}
		row[2] = other
		rows = append(rows, row)

		// retention bound, judged on the raw database
		if curW > 0 && !boundExceeded {
			var nonGenesis []uint64
			for _, h := range heightsWithPrefix2(db) {
				if h != 0 {
					nonGenesis = append(nonGenesis, h)
				}
			}
			if uint64(len(nonGenesis)) > curW+1 {
				boundExceeded = true
				// classify: every block outside (last-W, last] must be "excused": since it was last written
				// no accept had it as prune target and no restart had it below its threshold.
				allExcused := true
				for _, h := range nonGenesis {
					inWindow := hasLast && h <= lastAcc && lastAcc < h+curW
					if inWindow {
						continue
					}
					lw, ok := lastWrite[h]
					if !ok {
						allExcused = false
						continue
					}
					for _, v := range events {
						if v.idx <= lw {
							continue
						}
						if v.accept && v.w > 0 && v.h > v.w && v.h-v.w == h {
							allExcused = false
						}
						if !v.accept && v.hasL && v.w > 0 && v.h > v.w && h < v.h-v.w {
							allExcused = false
						}
					}
				}
				if allExcused {
					boundSig = "stale-blocks-outside-window-retained-until-restart"
				} else {
					boundSig = "retention-bound-exceeded-by-block-that-should-have-been-pruned"
				}
			}
		}
	}

	mk := func(mode int, sg string) emit.Case {
		var rowS []string
		for _, r := range rows {
			rowS = append(rowS, nlist(r))
		}
		coq := emit.App("mk", emit.N(uint64(mode)), emit.N(in.W0), triples(table), triples(opsT), nlist(hs), nlist(idsU),
			emit.List("list N", rowS))
		return emit.Case{Coq: coq, JSON: mirror{in, mode, hs, idsU, rows}, Nontrivial: len(in.Ops) >= 3, Kind: in.Kind, Sig: sg}
	}
	if boundExceeded {
		return []emit.Case{mk(0, sig), mk(1, boundSig)}
	}
	return []emit.Case{mk(2, sig)}
}

// ---- generators -------------------------------------------------------------------------

var windows = []uint64{0, 1, 2, 5}

func pickW(r *rand.Rand) uint64 {
	if r.Intn(40) == 0 {
		return 1 << 63
	}
	return windows[r.Intn(len(windows))]
}

func pickF(r *rand.Rand) uint64 {
	switch r.Intn(12) {
	case 0:
		return 0
	case 1, 2:
		return 32
	case 3, 4:
		return 2
	default:
		return 1
	}
}

// canonical chain block at height h
func cb(h uint64) opT { return opT{H: h, I: 100 + h, D: h % 3} }

func acc(h uint64) opT  { o := cb(h); o.K = "accept"; return o }
func save(h uint64) opT { o := cb(h); o.K = "save"; return o }

func maybeRestart(r *rand.Rand, ops []opT, w uint64, p int) ([]opT, uint64) {
	if r.Intn(p) == 0 {
		nw := w
		if r.Intn(2) == 0 {
			nw = pickW(r)
		}
		f := pickF(r)
		ops = append(ops, opT{K: "restart", W: nw, F: f})
		if f != 0 {
			w = nw
		}
	}
	return ops, w
}

func genConsecutive(r *rand.Rand) input {
	w := pickW(r)
	in := input{W0: w, Kind: "consecutive"}
	n := 3 + r.Intn(14)
	start := uint64(0)
	if r.Intn(4) == 0 {
		start = uint64(1 + r.Intn(3))
	}
	for h := start; h < start+uint64(n); h++ {
		in.Ops = append(in.Ops, acc(h))
		in.Ops, w = maybeRestart(r, in.Ops, w, 5)
	}
	return in
}

// accept some prefix, jump over a gap (state sync), backfill historical blocks below the target,
// continue accepting
func genStateSync(r *rand.Rand) input {
	w := pickW(r)
	in := input{W0: w, Kind: "statesync"}
	pre := r.Intn(5)
	var h uint64
	for h = 0; h < uint64(pre); h++ {
		in.Ops = append(in.Ops, acc(h))
	}
	in.Ops, w = maybeRestart(r, in.Ops, w, 4)
	gap := uint64(1 + r.Intn(8))
	target := h + gap
	if pre == 0 && r.Intn(2) == 0 {
		in.Ops = append(in.Ops, acc(0))
	}
	in.Ops = append(in.Ops, acc(target))
	// backfill below target, interleaved with new accepts
	back := target
	next := target + 1
	steps := 2 + r.Intn(10)
	for i := 0; i < steps; i++ {
		switch r.Intn(3) {
		case 0:
			if back > 1 {
				back--
				in.Ops = append(in.Ops, save(back))
			}
		default:
			in.Ops = append(in.Ops, acc(next))
			next++
		}
		in.Ops, w = maybeRestart(r, in.Ops, w, 6)
	}
	if r.Intn(3) == 0 {
		// a second gap
		next += uint64(1 + r.Intn(6))
		in.Ops = append(in.Ops, acc(next))
		in.Ops = append(in.Ops, acc(next+1))
	}
	return in
}

func genRandom(r *rand.Rand, wf bool) input {
	w := pickW(r)
	in := input{W0: w, Kind: "random"}
	if !wf {
		in.Kind = "random-forks"
	}
	n := 4 + r.Intn(20)
	var last uint64
	has := false
	blk := func(h uint64) opT {
		o := cb(h)
		if !wf {
			switch r.Intn(6) {
			case 0:
				o.I = 200 + h // fork: other id at the same height
				o.D = 7
			case 1:
				o.I = 100 + uint64(r.Intn(8)) // id of another height
			case 2:
				o.D = 9 // same height and id, other bytes
			}
		}
		return o
	}
	for i := 0; i < n; i++ {
		switch x := r.Intn(10); {
		case x < 5: // accept
			var h uint64
			switch y := r.Intn(10); {
			case !has:
				h = uint64(r.Intn(3))
			case y < 6:
				h = last + 1
			case y < 8:
				h = last + 1 + uint64(r.Intn(7))
			case y < 9:
				h = last
			default:
				if last > 0 {
					h = uint64(r.Intn(int(last)))
				}
			}
			o := blk(h)
			o.K = "accept"
			in.Ops = append(in.Ops, o)
			last, has = h, true
		case x < 8: // historical save, biased to the window boundary
			var h uint64
			edge := uint64(0)
			if last > w {
				edge = last - w
			}
			switch r.Intn(5) {
			case 0:
				h = edge
			case 1:
				h = edge + 1
			case 2:
				if edge > 0 {
					h = edge - 1
				}
			case 3:
				h = uint64(r.Intn(int(last) + 2))
			default:
				h = last + uint64(r.Intn(3))
			}
			o := blk(h)
			o.K = "save"
			in.Ops = append(in.Ops, o)
		default:
			in.Ops, w = maybeRestart(r, in.Ops, w, 1)
		}
	}
	return in
}

func gen(r *rand.Rand) input {
	switch x := r.Intn(10); {
	case x < 2:
		return genConsecutive(r)
	case x < 5:
		return genStateSync(r)
	case x < 8:
		return genRandom(r, true)
	default:
		return genRandom(r, false)
	}
}

// exhaustive: every sequence of <= depth symbolic ops, for each initial window
func enumerate(depth int, emitF func(input)) {
	const nsym = 7
	for _, w0 := range []uint64{1, 2} {
		var rec func(ops []opT, last uint64, has bool, w uint64, d int)
		rec = func(ops []opT, last uint64, has bool, w uint64, d int) {
			if len(ops) > 0 {
				emitF(input{W0: w0, Ops: append([]opT{}, ops...), Kind: "exhaustive"})
			}
			if d == depth {
				return
			}
			for s := 0; s < nsym; s++ {
				switch s {
				case 0: // next
					h := uint64(0)
					if has {
						h = last + 1
					}
					rec(append(ops, acc(h)), h, true, w, d+1)
				case 1: // gap
					h := uint64(3)
					if has {
						h = last + 3
					}
					rec(append(ops, acc(h)), h, true, w, d+1)
				case 2: // save at the edge
					if has && last >= w {
						rec(append(ops, save(last-w)), last, has, w, d+1)
					}
				case 3: // save below the edge
					if has && last >= w+1 {
						rec(append(ops, save(last-w-1)), last, has, w, d+1)
					}
				case 4: // save just inside
					if has && last+1 >= w && last+1-w <= last {
						rec(append(ops, save(last+1-w)), last, has, w, d+1)
					}
				case 5:
					rec(append(ops, opT{K: "restart", W: 1, F: 1}), last, has, 1, d+1)
				case 6:
					rec(append(ops, opT{K: "restart", W: 2, F: 1}), last, has, 2, d+1)
				}
			}
		}
		rec(nil, 0, false, w0, 0)
	}
}

func TestDriver(t *testing.T) {
	env := emit.GetEnv()
	if env.Out == "" {
		t.Skip("VERIF_OUT not set")
	}
	w, err := emit.NewWriter(env.Out)
	if err != nil {
		t.Fatal(err)
	}
	defer w.Close()
	put := func(in input) {
		for _, c := range run(in) {
			_ = w.Put(c)
		}
	}
	if env.Mode == "replay" {
		raws, err := emit.ReadReplay(env.Replay)
		if err != nil {
			t.Fatal(err)
		}
		for _, raw := range raws {
			var in input
			if err := json.Unmarshal(raw, &in); err != nil {
				t.Fatal(err)
			}
			put(in)
		}
		return
	}
	r := env.Rand()
	if env.Tier == "thorough" {
		enumerate(5, put)
	} else {
		enumerate(3, put)
	}
	for i := 0; i < env.N; i++ {
		put(gen(r))
	}
}
