// Driver for C23: internal/mempool.Mempool driven through operation sequences over a small universe.
// After every operation the public observables (Len/Size/Has/PeekNext, return values) and the read-only
// verif hooks (queue walk in both directions, owned counters, expiry-heap root, stream state) are recorded.
package mempool

import (
	"context"
	"encoding/json"
	"fmt"
	"math/rand"
	"sort"
	"strings"
	"testing"
	"time"

	"github.com/ava-labs/avalanchego/ids"
	"github.com/ava-labs/avalanchego/trace"

	"github.com/ava-labs/hypersdk/codec"
	"github.com/ava-labs/hypersdk/internal/mempool"
	"github.com/ava-labs/hypersdk/verifharness/emit"
)

// ---- test item -----------------------------------------------------------------------------

type Item struct {
	ID  int   `json:"id"`
	Sp  int   `json:"sp"`
	Sz  int   `json:"size"`
	Exp int64 `json:"exp"`
}

func mkID(n int) ids.ID                   { var id ids.ID; id[0] = byte(n); id[31] = 0xA5; return id }
func mkAddr(n int) codec.Address          { var a codec.Address; a[0] = 1; a[1] = byte(n); return a }
func (i *Item) GetID() ids.ID             { return mkID(i.ID) }
func (i *Item) GetExpiry() int64          { return i.Exp }
func (i *Item) GetSponsor() codec.Address { return mkAddr(i.Sp) }
func (i *Item) Size() int                 { return i.Sz }

func (i Item) coq() string {
	return fmt.Sprintf("(I %d %d %s %s)", i.ID, i.Sp, zlit(int64(i.Sz)), zlit(i.Exp))
}

func zlit(v int64) string {
	if v < 0 {
		return fmt.Sprintf("(%d)", v)
	}
	return fmt.Sprintf("%d", v)
}

func itemsCoq(xs []Item) string {
	if len(xs) == 0 {
		return "[]"
	}
	s := make([]string, len(xs))
	for i, x := range xs {
		s[i] = strings.TrimSuffix(strings.TrimPrefix(x.coq(), "("), ")")
	}
	return "[" + strings.Join(s, "; ") + "]"
}

func optCoq(x *Item) string {
	if x == nil {
		return "None"
	}
	return "(Some " + x.coq() + ")"
}

// ---- operations ------------------------------------------------------------------------------

type Op struct {
	Kind   string    `json:"op"` // add remove pop setmin top start prepare stream finish
	Items  []Item    `json:"items,omitempty"`
	T      int64     `json:"t,omitempty"`
	Count  int       `json:"count,omitempty"`
	Script [][2]bool `json:"script,omitempty"` // (cont, restore) per visited item
}

func (o Op) coq() string {
	switch o.Kind {
	case "add":
		return "(OAdd " + itemsCoq(o.Items) + ")"
	case "remove":
		return "(ORemove " + itemsCoq(o.Items) + ")"
	case "pop":
		return "OPop"
	case "setmin":
		return "(OSetMin " + zlit(o.T) + ")"
	case "top":
		s := make([]string, len(o.Script))
		for i, p := range o.Script {
			s[i] = fmt.Sprintf("(%v,%v)", p[0], p[1])
		}
		return "(OTop [" + strings.Join(s, ";") + "])"
	case "start":
		return "OStart"
	case "prepare":
		return fmt.Sprintf("(OPrepare %d)", o.Count)
	case "stream":
		return fmt.Sprintf("(OStream %d)", o.Count)
	case "finish":
		return "(OFinish " + itemsCoq(o.Items) + ")"
	}
	panic("bad op " + o.Kind)
}

type Input struct {
	Max   int  `json:"max"`
	MaxSp int  `json:"maxsp"`
	NIDs  int  `json:"nids"`
	NSp   int  `json:"nsp"`
	Ops   []Op `json:"ops"`
}

type Obs struct {
	Out      string `json:"out"`
	Len      int    `json:"len"`
	Size     int    `json:"size"`
	Has      []bool `json:"has"`
	Peek     *Item  `json:"peek"`
	Fwd      []Item `json:"fwd"`
	Bwd      []Item `json:"bwd"`
	QSize    int    `json:"qsize"`
	Owned    []int  `json:"owned"`
	PMin     *Item  `json:"pmin"`
	Active   bool   `json:"active"`
	Streamed []int  `json:"streamed"`
	Next     []Item `json:"next"`
	Fetched  bool   `json:"fetched"`
}

func (b Obs) coq() string {
	has := make([]string, len(b.Has))
	for i, h := range b.Has {
		has[i] = emit.Bool(h)
	}
	owned := make([]string, len(b.Owned))
	for i, c := range b.Owned {
		owned[i] = fmt.Sprint(c)
	}
	st := "[]"
	if len(b.Streamed) > 0 {
		s := make([]string, len(b.Streamed))
		for i, c := range b.Streamed {
			s[i] = fmt.Sprint(c)
		}
		st = "[" + strings.Join(s, ";") + "]%N"
	}
	return fmt.Sprintf("(mkO %s %d %s [%s] %s %s %s %d [%s] %s %v %s %s %v)",
		b.Out, b.Len, zlit(int64(b.Size)), strings.Join(has, ";"), optCoq(b.Peek), itemsCoq(b.Fwd), itemsCoq(b.Bwd),
		b.QSize, strings.Join(owned, ";"), optCoq(b.PMin), b.Active, st, itemsCoq(b.Next), b.Fetched)
}

func deref(xs []*Item) []Item {
	out := make([]Item, len(xs))
	for i, x := range xs {
		out[i] = *x
	}
	return out
}

func ptrs(xs []Item) []*Item {
	out := make([]*Item, len(xs))
	for i := range xs {
		x := xs[i]
		out[i] = &x
	}
	return out
}

func idOf(id ids.ID) int { return int(id[0]) }

func observe(m *mempool.Mempool[*Item], in Input, out string) Obs {
	ctx := context.Background()
	b := Obs{Out: out, Len: m.Len(ctx), Size: m.Size(ctx)}
	for i := 0; i < in.NIDs; i++ {
		b.Has = append(b.Has, m.Has(ctx, mkID(i)))
	}
	if p, ok := m.PeekNext(ctx); ok {
		c := *p
		b.Peek = &c
	}
	fwd, bwd, qs := m.VerifQueue()
	b.Fwd, b.Bwd, b.QSize = deref(fwd), deref(bwd), qs
	for s := 0; s < in.NSp; s++ {
		b.Owned = append(b.Owned, m.VerifOwned(mkAddr(s)))
	}
	if p, ok := m.VerifPeekMin(); ok {
		c := *p
		b.PMin = &c
	}
	active, streamed, next, fetched := m.VerifStreamState()
	b.Active, b.Fetched, b.Next = active, fetched, deref(next)
	for _, id := range streamed {
		b.Streamed = append(b.Streamed, idOf(id))
	}
	sort.Ints(b.Streamed)
	return b
}

// execute runs the operations against the real mempool; stops early (short obs list) on panic.
func execute(in Input) (obs []Obs, failure string) {
	done := make(chan struct{})
	go func() {
		defer close(done)
		defer func() {
			if r := recover(); r != nil {
				failure = fmt.Sprintf("panic: %v", r)
			}
		}()
		ctx := context.Background()
		m := mempool.New[*Item](trace.Noop, in.Max, in.MaxSp)
		for _, o := range in.Ops {
			out := "RUnit"
			switch o.Kind {
			case "add":
				m.Add(ctx, ptrs(o.Items))
			case "remove":
				m.Remove(ctx, ptrs(o.Items))
			case "pop":
				if p, ok := m.PopNext(ctx); ok {
					out = "(ROpt " + optCoq(p) + ")"
				} else {
					out = "(ROpt None)"
				}
			case "setmin":
				out = "(RItems " + itemsCoq(deref(m.SetMinTimestamp(ctx, o.T))) + ")"
			case "top":
				k := 0
				var visited []Item
				_ = m.Top(ctx, time.Hour, func(_ context.Context, it *Item) (bool, bool, error) {
					visited = append(visited, *it)
					cont, restore := false, false
					if k < len(o.Script) {
						cont, restore = o.Script[k][0], o.Script[k][1]
					}
					k++
					return cont, restore, nil
				})
				out = "(RItems " + itemsCoq(visited) + ")"
			case "start":
				m.StartStreaming(ctx)
			case "prepare":
				m.PrepareStream(ctx, o.Count)
			case "stream":
				out = "(RItems " + itemsCoq(deref(m.Stream(ctx, o.Count))) + ")"
			case "finish":
				out = fmt.Sprintf("(RNat %d)", m.FinishStreaming(ctx, ptrs(o.Items)))
			}
			obs = append(obs, observe(m, in, out))
		}
	}()
	select {
	case <-done:
	case <-time.After(hangTimeout):
		return obs, "hang"
	}
	return obs, failure
}

// signature: first property clause violated by the observations (Go-side, coarse; the verdict is Coq's).
func signature(in Input, obs []Obs, failure string) string {
	if failure != "" {
		return "mempool-" + strings.SplitN(failure, ":", 2)[0]
	}
	for _, b := range obs {
		seen := map[int]bool{}
		per := map[int]int{}
		sum := 0
		for _, x := range b.Fwd {
			if seen[x.ID] {
				return "mempool-duplicate-id"
			}
			seen[x.ID] = true
			per[x.Sp]++
			sum += x.Sz
		}
		if len(b.Fwd) > in.Max || b.Len != len(b.Fwd) {
			return "mempool-item-limit"
		}
		for _, c := range per {
			if c > in.MaxSp {
				return "mempool-sponsor-limit"
			}
		}
		if sum != b.Size {
			return "mempool-size-sum"
		}
		for i, h := range b.Has {
			if h != seen[i] {
				return "mempool-has-answer"
			}
		}
	}
	return "mempool-order-expiry-or-stream"
}

// hangTimeout bounds one case; a hang is reported as a failing case and ends the run at once (the stuck
// goroutine may be allocating without bound).
const hangTimeout = 8 * time.Second

func run(in Input, kind string) (emit.Case, bool) {
	obs, failure := execute(in)
	ops := make([]string, len(in.Ops))
	for i, o := range in.Ops {
		ops[i] = o.coq()
	}
	os := make([]string, len(obs))
	accepted := 0
	for i, b := range obs {
		os[i] = b.coq()
		if len(b.Fwd) > accepted {
			accepted = len(b.Fwd)
		}
	}
	coq := fmt.Sprintf("(mk %d %d %d %d\n [%s]\n [%s])", in.Max, in.MaxSp, in.NIDs, in.NSp,
		strings.Join(ops, "; "), strings.Join(os, ";\n  "))
	// the mirror holds the inputs (enough to replay); the observations are in the Coq term
	mirror := struct {
		Input
		Failure string `json:"failure,omitempty"`
		Steps   int    `json:"steps_observed"`
	}{in, failure, len(obs)}
	return emit.Case{Coq: coq, JSON: mirror, Nontrivial: accepted >= 1 && len(in.Ops) >= 5, Kind: kind, Sig: signature(in, obs, failure)}, failure == "hang"
}

// ---- generator ---------------------------------------------------------------------------------

var expiries = []int64{10, 20, 30, 40}
var sizes = []int{1, 2, 3, 10}
var minTs = []int64{0, 10, 11, 20, 21, 30, 31, 40, 41, 50}

type universe struct {
	nids, nsp int
	sp, sz    []int
	exp       []int64
}

func (u universe) item(r *rand.Rand, id int) Item {
	e := u.exp[id]
	if r.Intn(5) == 0 {
		e = expiries[r.Intn(len(expiries))]
	}
	return Item{ID: id, Sp: u.sp[id], Sz: u.sz[id], Exp: e}
}

// gen is guarded: the generator consults a shadow instance of the real mempool (to know what a stream
// handed out); if that instance panics or hangs, the operations generated so far are returned and run()
// reproduces the failure under its own guard.
func gen(r *rand.Rand) (Input, string) {
	var in Input
	kind := "general"
	done := make(chan struct{})
	go func() {
		defer close(done)
		defer func() { _ = recover() }()
		genInto(r, &in, &kind)
	}()
	select {
	case <-done:
	case <-time.After(hangTimeout):
	}
	cp := in
	cp.Ops = append([]Op{}, in.Ops...)
	return cp, kind
}

func genInto(r *rand.Rand, inp *Input, kindp *string) {
	u := universe{nids: []int{5, 6, 6, 8}[r.Intn(4)], nsp: 3 + r.Intn(2)}
	if r.Intn(6) == 0 {
		u.nsp = 1 + r.Intn(2)
	}
	for i := 0; i < u.nids; i++ {
		s := r.Intn(u.nsp)
		if r.Intn(3) == 0 {
			s = 0 // one busy sponsor
		}
		u.sp = append(u.sp, s)
		u.sz = append(u.sz, sizes[r.Intn(len(sizes))])
		u.exp = append(u.exp, expiries[r.Intn(len(expiries))])
	}
	in := inp
	in.NIDs, in.NSp = u.nids, u.nsp
	kind := "general"
	defer func() { *kindp = kind }()
	switch r.Intn(6) {
	case 0:
		in.Max = 1
	case 1:
		in.Max = 2
	case 2:
		in.Max = u.nids
	default:
		in.Max = 2 + r.Intn(u.nids)
	}
	switch r.Intn(4) {
	case 0:
		in.MaxSp = in.Max
		kind = "sponsor=total"
	case 1:
		in.MaxSp = 1
		kind = "sponsor=1"
	default:
		in.MaxSp = 1 + r.Intn(in.Max+1)
	}
	if in.Max == 1 {
		kind = "max=1"
	}
	nops := 5 + r.Intn(36)
	streaming := false
	var handed []Item // handed out in the running stream
	var seenItems []Item
	pickItems := func(n int) []Item {
		var xs []Item
		for i := 0; i < n; i++ {
			switch {
			case len(handed) > 0 && r.Intn(3) == 0:
				xs = append(xs, handed[r.Intn(len(handed))])
			case len(seenItems) > 0 && r.Intn(3) == 0:
				xs = append(xs, seenItems[r.Intn(len(seenItems))])
			default:
				xs = append(xs, u.item(r, r.Intn(u.nids)))
			}
		}
		seenItems = append(seenItems, xs...)
		return xs
	}
	// the generator needs to know what was handed out: run a shadow copy of the real mempool
	ctx := context.Background()
	shadow := mempool.New[*Item](trace.Noop, in.Max, in.MaxSp)
	usedStream := false
	apply := func(o Op) {
		in.Ops = append(in.Ops, o) // first: if the shadow hangs or panics here, run() reproduces it
		switch o.Kind {
		case "add":
			shadow.Add(ctx, ptrs(o.Items))
		case "remove":
			shadow.Remove(ctx, ptrs(o.Items))
		case "pop":
			shadow.PopNext(ctx)
		case "setmin":
			shadow.SetMinTimestamp(ctx, o.T)
		case "top":
			k := 0
			_ = shadow.Top(ctx, time.Hour, func(_ context.Context, _ *Item) (bool, bool, error) {
				cont, restore := false, false
				if k < len(o.Script) {
					cont, restore = o.Script[k][0], o.Script[k][1]
				}
				k++
				return cont, restore, nil
			})
		case "start":
			shadow.StartStreaming(ctx)
			handed = nil
		case "prepare":
			shadow.PrepareStream(ctx, o.Count)
			_, _, next, _ := shadow.VerifStreamState()
			handed = append(handed, deref(next)...)
		case "stream":
			handed = append(handed, deref(shadow.Stream(ctx, o.Count))...)
		case "finish":
			shadow.FinishStreaming(ctx, ptrs(o.Items))
			handed = nil
		}
	}
	for len(in.Ops) < nops {
		x := r.Intn(100)
		switch {
		case x < 30:
			apply(Op{Kind: "add", Items: pickItems(1 + r.Intn(4))})
		case x < 38:
			apply(Op{Kind: "remove", Items: pickItems(1 + r.Intn(3))})
		case x < 45:
			apply(Op{Kind: "pop"})
		case x < 55:
			apply(Op{Kind: "setmin", T: minTs[r.Intn(len(minTs))]})
		case x < 60:
			n := 1 + r.Intn(4)
			sc := make([][2]bool, n)
			for i := range sc {
				sc[i] = [2]bool{i < n-1, r.Intn(2) == 0}
			}
			if r.Intn(4) == 0 {
				sc[r.Intn(n)][0] = false
			}
			apply(Op{Kind: "top", Script: sc})
		case !streaming && x < 75:
			apply(Op{Kind: "start"})
			streaming, usedStream = true, true
		case !streaming && x < 77:
			// outside a stream: Stream/PrepareStream still work (streamedItems is allocated on demand)
			if r.Intn(2) == 0 {
				apply(Op{Kind: "stream", Count: r.Intn(3)})
			} else {
				apply(Op{Kind: "prepare", Count: r.Intn(3)})
			}
		case streaming && x < 72:
			apply(Op{Kind: "prepare", Count: r.Intn(4)})
		case streaming && x < 90:
			apply(Op{Kind: "stream", Count: r.Intn(4)})
		case streaming:
			var rest []Item
			for _, h := range handed {
				if r.Intn(2) == 0 {
					rest = append(rest, h)
				}
			}
			if r.Intn(3) == 0 {
				rest = append(rest, pickItems(1+r.Intn(2))...)
			}
			r.Shuffle(len(rest), func(i, j int) { rest[i], rest[j] = rest[j], rest[i] })
			apply(Op{Kind: "finish", Items: rest})
			streaming = false
		default:
			apply(Op{Kind: "add", Items: pickItems(1 + r.Intn(3))})
		}
	}
	if streaming {
		apply(Op{Kind: "finish", Items: handed})
		apply(Op{Kind: "add", Items: pickItems(2)})
	}
	if r.Intn(2) == 0 {
		// drain by expiry at the end: every held item is returned by SetMinTimestamp exactly once
		apply(Op{Kind: "setmin", T: 45})
	}
	if usedStream {
		kind += "+stream"
	}
}

func TestDriver(t *testing.T) {
	env := emit.GetEnv()
	if env.Out == "" {
		t.Skip("VERIF_OUT not set")
	}
	w, err := emit.NewWriter(env.Out)
	if err != nil {
		t.Fatal(err)
	}
	defer w.Close()
	if env.Mode == "replay" {
		raws, err := emit.ReadReplay(env.Replay)
		if err != nil {
			t.Fatal(err)
		}
		for _, raw := range raws {
			var in Input
			if err := json.Unmarshal(raw, &in); err != nil {
				t.Fatal(err)
			}
			c, hung := run(in, "replay")
			_ = w.Put(c)
			if hung {
				return
			}
		}
		return
	}
	r := env.Rand()
	for i := 0; i < env.N; i++ {
		in, kind := gen(r)
		c, hung := run(in, kind)
		_ = w.Put(c)
		if hung {
			return
		}
	}
}
