// Driver for C13 (fee market rule / window / manager byte layout), C33 (fees.LargestSet) and the
// Consume part of C12 (shared with the units driver through blockgen).
package fees

import (
	"encoding/binary"
	"encoding/json"
	"fmt"
	"math"
	"math/bits"
	"math/rand"
	"testing"

	hfees "github.com/ava-labs/hypersdk/fees"
	ifees "github.com/ava-labs/hypersdk/internal/fees"
	"github.com/ava-labs/hypersdk/internal/window"
	"github.com/ava-labs/hypersdk/verifharness/drivers/fees/blockgen"
	"github.com/ava-labs/hypersdk/verifharness/emit"
)

const maxU = math.MaxUint64

// ---------------------------------------------------------------- printing helpers

func nlist(vs []uint64) string { return blockgen.NList(vs) }
func dimsStr(d hfees.Dimensions) string { return blockgen.NList(d[:]) }

func winSlots(w window.Window) []uint64 {
	out := make([]uint64, window.WindowSize)
	for i := range out {
		out[i] = binary.BigEndian.Uint64(w[8*i:])
	}
	return out
}

func mkWin(slots []uint64) window.Window {
	var w window.Window
	for i := 0; i < window.WindowSize && i < len(slots); i++ {
		binary.BigEndian.PutUint64(w[8*i:], slots[i])
	}
	return w
}

// ---------------------------------------------------------------- boundary-biased values

func bu64(r *rand.Rand) uint64 { return blockgen.BU64(r) }

func pick(r *rand.Rand, vs ...uint64) uint64 { return vs[r.Intn(len(vs))] }

func genSince(r *rand.Rand) uint64 {
	switch r.Intn(10) {
	case 0:
		return pick(r, 1<<63, 1<<63-1, maxU, maxU-9, 1<<61, 1<<61+1, 1<<62)
	case 1:
		return uint64(r.Intn(200))
	case 2:
		return 10 * bu64(r) / 10
	default:
		return pick(r, 0, 1, 2, 5, 8, 9, 10, 11, 12, 19, 20, 21, 29, 30, 100, 101)
	}
}

func genSlot(r *rand.Rand) uint64     { return blockgen.GenSlot(r) }
func genWindow(r *rand.Rand) []uint64 { return blockgen.GenWindow(r) }
func genPrice(r *rand.Rand) uint64    { return blockgen.GenPrice(r) }

func satAdd(a, b uint64) uint64 {
	s, c := bits.Add64(a, b, 0)
	if c != 0 {
		return maxU
	}
	return s
}

// harness-side total (only used to aim the generator at the boundaries; the oracle is in Coq)
func totalOf(w []uint64, consumed, since uint64) uint64 {
	nw := make([]uint64, 10)
	if since <= 10 {
		for i := 0; i+int(since) < 10; i++ {
			nw[i] = w[i+int(since)]
		}
	}
	if since < 10 {
		nw[9-since] = satAdd(nw[9-since], consumed)
	}
	t := uint64(0)
	for _, x := range nw {
		t = satAdd(t, x)
	}
	return t
}

// ---------------------------------------------------------------- C13: computeNextPriceWindow

type nextIn struct {
	W        []uint64 `json:"w"`
	Consumed uint64   `json:"consumed"`
	Price    uint64   `json:"price"`
	Target   uint64   `json:"target"`
	Denom    uint64   `json:"denom"`
	MinP     uint64   `json:"minp"`
	Since    uint64   `json:"since"`
}

type c13In struct {
	Type string   `json:"type"` // next | mono | win | mgr
	Next *nextIn  `json:"next,omitempty"`
	W2   []uint64 `json:"w2,omitempty"` // mono: second window / consumption
	C2   uint64   `json:"c2,omitempty"`
	Win  *winIn   `json:"win,omitempty"`
	Mgr  *mgrIn   `json:"mgr,omitempty"`
	Cls  string   `json:"cls,omitempty"`
}

type winIn struct {
	W    []uint64 `json:"w"`
	R    uint64   `json:"r"`
	Slot int      `json:"slot"`
	V    uint64   `json:"v"`
}

type mgrOp struct {
	Op      string    `json:"op"` // setprice | setlast | consume | next
	K       int       `json:"k,omitempty"`
	V       uint64    `json:"v,omitempty"`
	D       [5]uint64 `json:"d,omitempty"`
	L       [5]uint64 `json:"l,omitempty"`
	T       int64     `json:"t,omitempty"`
	Targets [5]uint64 `json:"targets,omitempty"`
	Denoms  [5]uint64 `json:"denoms,omitempty"`
	Mins    [5]uint64 `json:"mins,omitempty"`
}

type mgrIn struct {
	Raw   []byte    `json:"raw"`
	Ops   []mgrOp   `json:"ops"`
	FeeIn [5]uint64 `json:"fee_in"`
}

// callNext runs the implementation; a panic is reported as an impossible observation (empty window), so
// that the case fails both oracles and is written out as the failing input.
func callNext(in *nextIn) (p uint64, w []uint64) {
	defer func() {
		if e := recover(); e != nil {
			p, w = 0, nil
		}
	}()
	pp, ww := ifees.VerifComputeNextPriceWindow(mkWin(in.W), in.Consumed, in.Price, in.Target, in.Denom, in.MinP, in.Since)
	return pp, winSlots(ww)
}

func runNext(in c13In) emit.Case {
	n := in.Next
	p, w := callNext(n)
	coq := emit.App("CNext", nlist(n.W), emit.N(n.Consumed), emit.N(n.Price), emit.N(n.Target), emit.N(n.Denom),
		emit.N(n.MinP), emit.N(n.Since), emit.N(p), nlist(w))
	total := totalOf(n.W, n.Consumed, n.Since)
	dir := "eq"
	if total > n.Target {
		dir = "up"
	} else if total < n.Target {
		dir = "down"
	}
	return emit.Case{Coq: coq, JSON: in, Nontrivial: total != n.Target, Kind: "next:" + in.Cls + ":" + dir,
		Sig: "next-price-differs-from-rule:" + dir}
}

func runMono(in c13In) emit.Case {
	n := in.Next
	p1, w1 := callNext(n)
	n2 := *n
	n2.W, n2.Consumed = in.W2, in.C2
	p2, w2 := callNext(&n2)
	if w1 == nil || w2 == nil { // panic: report it as a failing next-price case
		bad := in
		bad.Type = "next"
		if w1 != nil {
			bad.Next = &n2
		}
		return runNext(bad)
	}
	coq := emit.App("CMono", nlist(n.W), emit.N(n.Consumed), nlist(in.W2), emit.N(in.C2), emit.N(n.Price), emit.N(n.Target),
		emit.N(n.Denom), emit.N(n.MinP), emit.N(n.Since), emit.N(p1), emit.N(p2))
	return emit.Case{Coq: coq, JSON: in, Nontrivial: p1 != p2, Kind: "mono:" + in.Cls, Sig: "higher-usage-lower-price"}
}

func runWin(in c13In) (c emit.Case) {
	wi := in.Win
	defer func() {
		if e := recover(); e != nil {
			c = emit.Case{Coq: emit.App("CWin", nlist(wi.W), emit.N(wi.R), emit.Nat(wi.Slot), emit.N(wi.V), "(@nil N)", "0%N", "(@nil N)", "0%N"),
				JSON: in, Nontrivial: true, Kind: "win:panic", Sig: "window-panic"}
		}
	}()
	w := mkWin(wi.W)
	rolled := window.Roll(w, wi.R)
	sum := window.Sum(w)
	upd := mkWin(wi.W)
	window.Update(&upd, wi.Slot*8, wi.V)
	last := window.Last(&w)
	coq := emit.App("CWin", nlist(wi.W), emit.N(wi.R), emit.Nat(wi.Slot), emit.N(wi.V),
		nlist(winSlots(rolled)), emit.N(sum), nlist(winSlots(upd)), emit.N(last))
	return emit.Case{Coq: coq, JSON: in, Nontrivial: true, Kind: "win", Sig: "window-roll-sum-update"}
}

type rules struct{ targets, denoms, mins, max hfees.Dimensions }

func (r rules) GetMinUnitPrice() hfees.Dimensions               { return r.mins }
func (r rules) GetUnitPriceChangeDenominator() hfees.Dimensions { return r.denoms }
func (r rules) GetWindowTargetUnits() hfees.Dimensions          { return r.targets }
func (r rules) GetMaxBlockUnits() hfees.Dimensions              { return r.max }

func runMgr(in c13In) (c emit.Case) {
	mi := in.Mgr
	defer func() {
		if e := recover(); e != nil {
			c = emit.Case{Coq: emit.App("CMgr", blockgen.BytesNum(mi.Raw), "(@nil mop)", "0%nat (@nil N)", "0%N", "(@nil N)", "(@nil N)",
				"(@nil (list N))", dimsStr(mi.FeeIn), "(@None N)"), JSON: in, Nontrivial: true, Kind: "mgr:panic", Sig: "manager-panic"}
		}
	}()
	raw := append([]byte{}, mi.Raw...)
	var m *ifees.Manager
	if len(raw) == 0 {
		m = ifees.NewManager(nil)
	} else {
		m = ifees.NewManager(raw)
	}
	ops := make([]string, 0, len(mi.Ops))
	nNext := 0
	for i, op := range mi.Ops {
		// ComputeNext does not change its receiver: the builder, the pre-executor and the verifier may all have asked
		// this manager for the next state already. Ask for the state the NEXT "next" op will ask for, and drop the answer.
		for _, later := range mi.Ops[i:] {
			if later.Op == "next" {
				_ = m.ComputeNext(later.T, rules{targets: later.Targets, denoms: later.Denoms, mins: later.Mins})
				break
			}
		}
		switch op.Op {
		case "setprice":
			m.SetUnitPrice(hfees.Dimension(op.K), op.V)
			ops = append(ops, emit.App("OSetPrice", emit.Nat(op.K), emit.N(op.V)))
		case "setlast":
			m.SetLastConsumed(hfees.Dimension(op.K), op.V)
			ops = append(ops, emit.App("OSetLast", emit.Nat(op.K), emit.N(op.V)))
		case "consume":
			ok, dim := m.Consume(op.D, op.L)
			ops = append(ops, emit.App("OConsume", dimsStr(op.D), dimsStr(op.L), emit.Bool(ok), emit.N(uint64(dim))))
		case "next":
			m = m.ComputeNext(op.T, rules{targets: op.Targets, denoms: op.Denoms, mins: op.Mins})
			nNext++
			ops = append(ops, emit.App("ONext", emit.Z(op.T), dimsStr(op.Targets), dimsStr(op.Denoms), dimsStr(op.Mins)))
		}
	}
	out := append([]byte{}, m.Bytes()...)
	// decode side: a fresh manager over the encoded bytes
	m2 := ifees.NewManager(append([]byte{}, out...))
	prices := m2.UnitPrices()
	lasts := m2.UnitsConsumed()
	wins := make([]string, hfees.FeeDimensions)
	for i := 0; i < hfees.FeeDimensions; i++ {
		wins[i] = nlist(winSlots(m2.Window(hfees.Dimension(i))))
		// the single-dimension getters must agree with the vector getters on both managers
		if m2.UnitPrice(hfees.Dimension(i)) != prices[i] || m.UnitPrice(hfees.Dimension(i)) != prices[i] {
			prices[i] ^= 0xdead
		}
		if m2.LastConsumed(hfees.Dimension(i)) != lasts[i] || m.LastConsumed(hfees.Dimension(i)) != lasts[i] {
			lasts[i] ^= 0xdead
		}
	}
	ts := uint64(0)
	if len(out) >= 8 {
		ts = binary.BigEndian.Uint64(out[:8])
	}
	fee, err := m2.Fee(mi.FeeIn)
	feeS := "(@None N)"
	if err == nil {
		feeS = emit.Some(emit.N(fee))
	}
	coq := emit.App("CMgr", blockgen.BytesNum(mi.Raw), emit.List("mop", ops), blockgen.BytesNum(out), emit.N(ts), dimsStr(prices), dimsStr(lasts),
		emit.List("list N", wins), dimsStr(mi.FeeIn), feeS)
	return emit.Case{Coq: coq, JSON: in, Nontrivial: len(mi.Ops) > 0, Kind: fmt.Sprintf("mgr:next%d", nNext),
		Sig: "manager-state-roundtrip"}
}

func runC13(in c13In) emit.Case {
	switch in.Type {
	case "next":
		return runNext(in)
	case "mono":
		return runMono(in)
	case "win":
		return runWin(in)
	default:
		return runMgr(in)
	}
}

// ---- generators

func genDenom(r *rand.Rand) uint64 {
	switch r.Intn(8) {
	case 0:
		return 1
	case 1:
		return 2
	case 2, 3, 4:
		return 48
	case 5:
		return uint64(1 + r.Intn(1000))
	default:
		d := bu64(r)
		if d == 0 {
			d = 1
		}
		return d
	}
}

func around(r *rand.Rand, v uint64) uint64 {
	switch r.Intn(5) {
	case 0:
		if v > 0 {
			return v - 1
		}
	case 1:
		if v < maxU {
			return v + 1
		}
	case 2:
		if v > 1 {
			return v - 2
		}
	}
	return v
}

// next-price input aimed at a boundary class
func genNext(r *rand.Rand) (nextIn, string) {
	in := nextIn{W: genWindow(r), Consumed: genSlot(r), Since: genSince(r), Denom: genDenom(r), Price: genPrice(r)}
	total := totalOf(in.W, in.Consumed, in.Since)
	cls := "gen"
	// aim: choose delta, then target = total -/+ delta
	var delta uint64
	switch r.Intn(9) {
	case 0, 1: // price*delta ~ k*2^64  (the wrap of the pinned code)
		cls = "wrap"
		if in.Price < 2 {
			in.Price = uint64(1) << uint(1+r.Intn(62))
		}
		k := uint64(1 + r.Intn(3))
		// delta ~ k*2^64/price
		if k >= in.Price {
			in.Price = k + 1 + uint64(r.Intn(1000))
		}
		q, _ := bits.Div64(k, 0, in.Price)
		delta = around(r, around(r, q))
	case 2: // mulDiv saturation: price*delta ~ target*2^64 with a small target
		cls = "muldivsat"
		delta = bu64(r)
	case 3: // target == total +- 1
		cls = "edge"
		delta = uint64(r.Intn(3))
	case 4:
		cls = "small"
		delta = uint64(r.Intn(5000))
	default:
		delta = bu64(r)
	}
	up := r.Intn(2) == 0
	if up {
		if delta > total {
			// rebuild a window with a large enough total
			in.W[r.Intn(10)] = delta
			if in.Since >= 10 {
				in.Since = uint64(r.Intn(3))
			}
			if in.Since > 0 {
				in.W[9] = delta
			}
			total = totalOf(in.W, in.Consumed, in.Since)
		}
		if delta > total {
			delta = total
		}
		in.Target = total - delta
	} else {
		in.Target = satAdd(total, delta)
	}
	if cls == "muldivsat" && in.Target > 0 {
		// choose price ~ target*2^64/delta when that fits
		d := delta
		if up {
			d = total - in.Target
		} else {
			d = in.Target - total
		}
		if d > in.Target {
			q, _ := bits.Div64(in.Target, 0, d)
			in.Price = around(r, q)
		}
	}
	if r.Intn(40) == 0 {
		in.Target = 0
	}
	// min price: 0, default, around the unclamped result, max
	switch r.Intn(6) {
	case 0:
		in.MinP = 0
	case 1:
		in.MinP = 100
	case 2:
		in.MinP = around(r, in.Price)
	case 3:
		in.MinP = bu64(r)
	case 4:
		probe := in
		probe.MinP = 0
		p, _ := callNext(&probe)
		in.MinP = around(r, p)
	default:
		in.MinP = uint64(r.Intn(200))
	}
	return in, cls
}

func genMono(r *rand.Rand) c13In {
	n, cls := genNext(r)
	w2 := append([]uint64{}, n.W...)
	c2 := n.Consumed
	switch r.Intn(4) {
	case 0:
		c2 = satAdd(c2, uint64(1+r.Intn(3)))
	case 1:
		i := r.Intn(10)
		w2[i] = satAdd(w2[i], uint64(1)<<uint(r.Intn(64)))
	case 2:
		i := r.Intn(10)
		w2[i] = satAdd(w2[i], uint64(1+r.Intn(4)))
	default:
		w2 = genWindow(r)
		c2 = genSlot(r)
	}
	return c13In{Type: "mono", Next: &n, W2: w2, C2: c2, Cls: cls}
}

func genWin(r *rand.Rand) c13In {
	return c13In{Type: "win", Win: &winIn{
		W:    genWindow(r),
		R:    pick(r, 0, 1, 2, 3, 5, 8, 9, 10, 11, 12, 16, 1<<61, 1<<61+1, 1<<63, maxU, uint64(r.Intn(14))),
		Slot: r.Intn(10),
		V:    genSlot(r),
	}}
}

func genDims(r *rand.Rand, f func(*rand.Rand) uint64) [5]uint64 {
	var d [5]uint64
	for i := range d {
		d[i] = f(r)
	}
	return d
}

func genMgr(r *rand.Rand) c13In {
	raw, ts := blockgen.GenRaw(r, genSlot)
	mi := mgrIn{Raw: raw, FeeIn: genDims(r, func(r *rand.Rand) uint64 {
		if r.Intn(3) == 0 {
			return bu64(r)
		}
		return uint64(r.Intn(1000))
	})}
	nops := 1 + r.Intn(7)
	for i := 0; i < nops; i++ {
		switch r.Intn(6) {
		case 0:
			mi.Ops = append(mi.Ops, mgrOp{Op: "setprice", K: r.Intn(5), V: genPrice(r)})
		case 1:
			mi.Ops = append(mi.Ops, mgrOp{Op: "setlast", K: r.Intn(5), V: genSlot(r)})
		case 2, 3:
			mi.Ops = append(mi.Ops, mgrOp{Op: "consume", D: genDims(r, genSlot), L: genDims(r, func(r *rand.Rand) uint64 {
				if r.Intn(2) == 0 {
					return maxU
				}
				return bu64(r)
			})})
		default:
			// currTime so that since = currSec - int64(ts) lands on a boundary
			s := int64(pick(r, 0, 1, 2, 9, 10, 11, 19, 20, 21, 100, 1<<62))
			var t int64
			switch r.Intn(6) {
			case 0:
				t = int64(bu64(r)) // anything, including negative
			case 1:
				t = (int64(ts) - s) * 1000 // going back in time: since wraps to a huge value
			default:
				t = (int64(ts)+s)*1000 + int64(r.Intn(1000))
			}
			op := mgrOp{Op: "next", T: t, Targets: genDims(r, func(r *rand.Rand) uint64 {
				switch r.Intn(3) {
				case 0:
					return uint64(1 + r.Intn(5000))
				default:
					v := bu64(r)
					if v == 0 {
						v = 1
					}
					return v
				}
			}), Denoms: genDims(r, genDenom), Mins: genDims(r, func(r *rand.Rand) uint64 { return pick(r, 0, 1, 100, 100, uint64(r.Intn(500)), bu64(r)) })}
			mi.Ops = append(mi.Ops, op)
			ts = uint64(t / 1000)
		}
	}
	return c13In{Type: "mgr", Mgr: &mi}
}

// price*delta = target*2^64 + eps exactly: the edge of the mulDiv saturation test (hi == c)
func genHiEqC(r *rand.Rand) (nextIn, string) {
	a := uint(1 + r.Intn(63))
	t := uint64(1)
	if a > 1 {
		t = 1 + uint64(r.Int63n(int64(uint64(1)<<(a-1))))
	}
	if r.Intn(3) == 0 {
		t = uint64(1 + r.Intn(5))
	}
	d := uint64(1) << a
	p := t << (64 - a)
	switch r.Intn(4) {
	case 0:
		p--
	case 1:
		p++
	}
	if r.Intn(4) == 0 {
		d += uint64(r.Intn(3))
	}
	in := nextIn{W: make([]uint64, 10), Since: uint64(r.Intn(10)), Denom: genDenom(r), Price: p, Target: t,
		MinP: pick(r, 0, 100, bu64(r))}
	total := satAdd(t, d)
	// split the usage between the parent's consumption and a surviving slot
	in.Consumed = total
	if r.Intn(2) == 0 && in.Since < 9 {
		x := uint64(r.Int63n(1 << 20))
		if x < total {
			in.W[9] = x
			in.Consumed = total - x
		}
	}
	return in, "hiEqC"
}

func genC13(r *rand.Rand) c13In {
	if r.Intn(12) == 0 {
		n, cls := genHiEqC(r)
		return c13In{Type: "next", Next: &n, Cls: cls}
	}
	switch x := r.Intn(20); {
	case x < 11:
		n, cls := genNext(r)
		return c13In{Type: "next", Next: &n, Cls: cls}
	case x < 15:
		return genMono(r)
	case x < 17:
		return genWin(r)
	default:
		return genMgr(r)
	}
}

func thoroughC13(w *emit.Writer) {
	// exhaustive small enumeration: since x (total vs target) x price scale x denom
	base := []uint64{100, 200, 300, 400, 500, 600, 700, 800, 900, 1000}
	for _, since := range []uint64{0, 1, 2, 5, 9, 10, 11, 15, 20, 25, 30, 1 << 63, maxU} {
		for _, price := range []uint64{0, 1, 99, 100, 1 << 20, 1 << 40, 1 << 54, 1 << 63, maxU} {
			for _, target := range []uint64{1, 999, 1000, 5500, 1 << 40, maxU} {
				for _, denom := range []uint64{1, 48, 1 << 32, maxU} {
					for _, consumed := range []uint64{0, 1000, 1 << 24, 1<<24 + 1000, 1 << 63, maxU} {
						for _, minp := range []uint64{0, 100} {
							n := nextIn{W: base, Consumed: consumed, Price: price, Target: target, Denom: denom, MinP: minp, Since: since}
							_ = w.Put(runC13(c13In{Type: "next", Next: &n, Cls: "enum"}))
						}
					}
				}
			}
		}
	}
}

// ---------------------------------------------------------------- C33: fees.LargestSet

type c33In struct {
	Dims  [][5]uint64 `json:"dims"`
	Limit [5]uint64   `json:"limit"`
	Cls   string      `json:"cls,omitempty"`
}

func runC33(in c33In) (c emit.Case) {
	ds := make([]hfees.Dimensions, len(in.Dims))
	items := make([]string, len(in.Dims))
	for i, d := range in.Dims {
		ds[i] = d
		items[i] = dimsStr(d)
	}
	defer func() {
		if e := recover(); e != nil {
			// impossible observation: index n
			c = emit.Case{Coq: emit.App("mk", emit.List("list N", items), dimsStr(in.Limit), nlist([]uint64{uint64(len(in.Dims))}), "(@nil N)"),
				JSON: in, Nontrivial: true, Kind: "panic", Sig: "largest-set-panic"}
		}
	}()
	idx, total := hfees.LargestSet(ds, in.Limit)
	coq := emit.App("mk", emit.List("list N", items), dimsStr(in.Limit), nlist(idx), dimsStr(total))
	skipped := len(in.Dims) - len(idx)
	kind := "all-fit"
	if skipped > 0 {
		kind = "skipped"
		// a skipped item that is followed (in the returned order) by a kept one?
		if len(idx) > 0 {
			kind = "skipped+kept"
		}
	}
	sig := fmt.Sprintf("largest-set-inconsistent:n=%d:kept=%d", len(in.Dims), len(idx))
	return emit.Case{Coq: coq, JSON: in, Nontrivial: skipped > 0 && len(idx) > 0, Kind: kind + ":" + in.Cls, Sig: sig}
}

func genC33(r *rand.Rand) c33In {
	n := r.Intn(9)
	if r.Intn(10) == 0 {
		n = 9 + r.Intn(8)
	}
	in := c33In{}
	cls := r.Intn(6)
	in.Cls = fmt.Sprint("c", cls)
	// limits
	for k := 0; k < 5; k++ {
		switch cls {
		case 0: // small universe: limits 0..20
			in.Limit[k] = uint64(r.Intn(21))
		case 1: // near 2^63 (the int64 cast)
			in.Limit[k] = pick(r, 1<<63-1, 1<<63, 1<<63+1, 1<<62, maxU, maxU-1, 0)
		case 2: // near 2^64
			in.Limit[k] = pick(r, maxU, maxU-1, maxU-10, 0)
		default:
			in.Limit[k] = pick(r, 0, 10, 100, 1000, bu64(r))
		}
	}
	for i := 0; i < n; i++ {
		var d [5]uint64
		for k := 0; k < 5; k++ {
			l := in.Limit[k]
			switch r.Intn(8) {
			case 0, 1:
				d[k] = 0
			case 2:
				d[k] = l // exactly the limit
			case 3:
				d[k] = l / 2
			case 4:
				if l < maxU {
					d[k] = l + 1 // does not fit alone
				}
			case 5:
				d[k] = l/3 + uint64(r.Intn(2))
			case 6:
				if cls == 0 {
					d[k] = uint64(r.Intn(12))
				} else {
					d[k] = bu64(r)
				}
			default:
				if l > 0 {
					d[k] = r.Uint64() % (l>>1 + 1)
				}
			}
		}
		if r.Intn(3) == 0 { // only one non-zero dimension
			k := r.Intn(5)
			v := d[k]
			d = [5]uint64{}
			d[k] = v
		}
		in.Dims = append(in.Dims, d)
	}
	return in
}

func thoroughC33(w *emit.Writer) {
	// all lists of <= 4 items over a 1-dimensional universe {0,1,2,3,5} (other dimensions 0) with limit 5,
	// and the same in dimension 4 with a second dimension fixed
	vals := []uint64{0, 1, 2, 3, 5, 6}
	var rec func(cur [][5]uint64, depth int)
	rec = func(cur [][5]uint64, depth int) {
		_ = w.Put(runC33(c33In{Dims: append([][5]uint64{}, cur...), Limit: [5]uint64{5, 0, 0, 0, 4}, Cls: "enum"}))
		if depth == 4 {
			return
		}
		for _, v := range vals {
			for _, u := range []uint64{0, 2} {
				rec(append(cur, [5]uint64{v, 0, 0, 0, u}), depth+1)
			}
		}
	}
	rec(nil, 0)
}

// ---------------------------------------------------------------- entry point

func TestDriver(t *testing.T) {
	env := emit.GetEnv()
	if env.Out == "" {
		t.Skip("VERIF_OUT not set")
	}
	w, err := emit.NewWriter(env.Out)
	if err != nil {
		t.Fatal(err)
	}
	defer w.Close()
	if env.Mode == "replay" {
		raws, err := emit.ReadReplay(env.Replay)
		if err != nil {
			t.Fatal(err)
		}
		for _, raw := range raws {
			switch env.Prop {
			case "C33":
				var in c33In
				if err := json.Unmarshal(raw, &in); err != nil {
					t.Fatal(err)
				}
				_ = w.Put(runC33(in))
			case "C12":
				c, err := blockgen.Replay(raw)
				if err != nil {
					t.Fatal(err)
				}
				_ = w.Put(c)
			default:
				var in c13In
				if err := json.Unmarshal(raw, &in); err != nil {
					t.Fatal(err)
				}
				_ = w.Put(runC13(in))
			}
		}
		return
	}
	r := env.Rand()
	switch env.Prop {
	case "C33":
		if env.Tier == "thorough" {
			thoroughC33(w)
		}
		for i := 0; i < env.N; i++ {
			_ = w.Put(runC33(genC33(r)))
		}
	case "C12":
		for i := 0; i < env.N; i++ {
			_ = w.Put(blockgen.Gen(r))
		}
	default:
		if env.Tier == "thorough" {
			thoroughC13(w)
		}
		for i := 0; i < env.N; i++ {
			_ = w.Put(runC13(genC13(r)))
		}
	}
}
