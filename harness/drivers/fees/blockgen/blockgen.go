// Package blockgen: generators shared by the fees driver (C13, C33) and the units driver (C12):
// boundary-biased uint64 values, manager states, and the "block = sequence of Consume calls" cases of C12.
package blockgen

import (
	"encoding/binary"
	"encoding/json"
	"fmt"
	"math"
	"math/rand"
	"strconv"
	"strings"

	hfees "github.com/ava-labs/hypersdk/fees"
	ifees "github.com/ava-labs/hypersdk/internal/fees"
	"github.com/ava-labs/hypersdk/verifharness/emit"
)

const MaxU = math.MaxUint64

// NList prints a []uint64 as a Coq list N.
func NList(vs []uint64) string {
	if len(vs) == 0 {
		return "(@nil N)"
	}
	var sb strings.Builder
	sb.WriteString("[")
	for i, v := range vs {
		if i > 0 {
			sb.WriteString(";")
		}
		sb.WriteString(strconv.FormatUint(v, 10))
	}
	sb.WriteString("]%N")
	return sb.String()
}

// BytesNum prints a byte string as "<len>%nat <list of big-endian uint64 words, zero padded>" (two Coq arguments).
func BytesNum(b []byte) string {
	padded := append([]byte{}, b...)
	for len(padded)%8 != 0 {
		padded = append(padded, 0)
	}
	ws := make([]uint64, len(padded)/8)
	for i := range ws {
		ws[i] = binary.BigEndian.Uint64(padded[8*i:])
	}
	return strconv.Itoa(len(b)) + "%nat " + NList(ws)
}

// BU64 returns a uint64 biased to the numeric boundaries.
func BU64(r *rand.Rand) uint64 {
	switch r.Intn(12) {
	case 0:
		return 0
	case 1:
		return 1
	case 2:
		return uint64(r.Intn(16))
	case 3:
		return MaxU
	case 4:
		return MaxU - uint64(r.Intn(4))
	case 5:
		return uint64(1)<<63 + uint64(r.Intn(3)) - 1
	case 6:
		return uint64(1)<<32 + uint64(r.Intn(3)) - 1
	case 7:
		return uint64(1)<<uint(r.Intn(64)) + uint64(r.Intn(3)) - 1
	case 8:
		return r.Uint64() >> uint(r.Intn(64))
	case 9:
		return uint64(r.Intn(100000))
	default:
		return r.Uint64()
	}
}

func pick(r *rand.Rand, vs ...uint64) uint64 { return vs[r.Intn(len(vs))] }

func GenSlot(r *rand.Rand) uint64 {
	switch r.Intn(10) {
	case 0, 1, 2, 3:
		return 0
	case 4, 5:
		return uint64(r.Intn(5000))
	case 6:
		return uint64(r.Int63n(1 << 40))
	default:
		return BU64(r)
	}
}

func GenWindow(r *rand.Rand) []uint64 {
	w := make([]uint64, 10)
	switch r.Intn(8) {
	case 0: // all zero
	case 1: // saturated
		for i := range w {
			w[i] = pick(r, MaxU, MaxU, 1<<63, 0)
		}
	case 2: // one big slot at a random place
		w[r.Intn(10)] = BU64(r)
	case 3: // distinct small values (so that a wrong shift is visible)
		for i := range w {
			w[i] = uint64(100*(i+1) + r.Intn(50))
		}
	default:
		for i := range w {
			w[i] = GenSlot(r)
		}
	}
	return w
}

func GenPrice(r *rand.Rand) uint64 {
	switch r.Intn(8) {
	case 0:
		return 100
	case 1:
		return uint64(r.Intn(300))
	case 2, 3:
		return uint64(1) << uint(r.Intn(64))
	case 4:
		return (uint64(1) << uint(r.Intn(64))) + uint64(r.Intn(3)) - 1
	default:
		return BU64(r)
	}
}

// GenRaw returns a manager state (nil = fresh) and its timestamp word.
func GenRaw(r *rand.Rand, lastGen func(*rand.Rand) uint64) ([]byte, uint64) {
	if r.Intn(6) == 0 {
		return nil, 0
	}
	raw := make([]byte, 488)
	ts := pick(r, 0, 1, 1000, 1_700_000_000, 1<<63-1, 1<<63, MaxU, uint64(r.Int63n(1<<40)))
	binary.BigEndian.PutUint64(raw[0:], ts)
	for k := 0; k < 5; k++ {
		off := 8 + 96*k
		binary.BigEndian.PutUint64(raw[off:], GenPrice(r))
		w := GenWindow(r)
		for i, x := range w {
			binary.BigEndian.PutUint64(raw[off+8+8*i:], x)
		}
		binary.BigEndian.PutUint64(raw[off+88:], lastGen(r))
	}
	return raw, ts
}

// ---------------------------------------------------------------- C12: a block as a sequence of Consume calls

type BlockIn struct {
	Type  string      `json:"type"` // "block"
	Raw   []byte      `json:"raw"`
	Limit [5]uint64   `json:"limit"`
	Units [][5]uint64 `json:"units"`
}

func dimsStr(d [5]uint64) string { return NList(d[:]) }

func newMgr(raw []byte) *ifees.Manager {
	if len(raw) == 0 {
		return ifees.NewManager(nil)
	}
	return ifees.NewManager(append([]byte{}, raw...))
}

func RunBlock(in BlockIn) (c emit.Case) {
	defer func() {
		if e := recover(); e != nil {
			c = emit.Case{Coq: emit.App("CBlock", BytesNum(in.Raw), dimsStr(in.Limit), "(@nil (dims * bool * N * dims))", "0%nat (@nil N)"),
				JSON: in, Nontrivial: true, Kind: "block:panic", Sig: "consume-panic"}
		}
	}()
	m := newMgr(in.Raw)
	steps := make([]string, len(in.Units))
	nOK, nFail := 0, 0
	firstFail := ""
	for i, u := range in.Units {
		before := m.UnitsConsumed()
		ok, dim := m.Consume(u, in.Limit)
		after := m.UnitsConsumed()
		if ok {
			nOK++
		} else {
			nFail++
			if firstFail == "" {
				changed := before != after
				firstFail = fmt.Sprintf("dim%d:changed=%v", dim, changed)
			}
		}
		steps[i] = "(" + dimsStr(u) + ", " + emit.Bool(ok) + ", " + emit.N(uint64(dim)) + ", " + dimsStr(after) + ")"
	}
	out := append([]byte{}, m.Bytes()...)
	coq := emit.App("CBlock", BytesNum(in.Raw), dimsStr(in.Limit), emit.List("dims * bool * N * dims", steps), BytesNum(out))
	return emit.Case{Coq: coq, JSON: in, Nontrivial: nOK > 0 && nFail > 0, Kind: fmt.Sprintf("block:ok%d:fail%d", min(nOK, 3), min(nFail, 3)),
		Sig: "consume-not-atomic-or-sum-wrong:" + firstFail}
}

func Gen(r *rand.Rand) emit.Case {
	in := BlockIn{Type: "block"}
	in.Raw, _ = GenRaw(r, func(r *rand.Rand) uint64 {
		switch r.Intn(4) {
		case 0:
			return uint64(r.Intn(30))
		case 1:
			return BU64(r)
		default:
			return 0
		}
	})
	cls := r.Intn(4)
	for k := 0; k < 5; k++ {
		switch cls {
		case 0:
			in.Limit[k] = uint64(r.Intn(40))
		case 1:
			in.Limit[k] = pick(r, MaxU, MaxU-1, 1<<63, 1<<63-1)
		default:
			in.Limit[k] = pick(r, 0, 10, 1000, 1800000, MaxU, BU64(r))
		}
	}
	// track consumption through the implementation to aim at limit - consumed +- 1
	m := newMgr(in.Raw)
	if r.Intn(8) != 0 { // mostly: the initial consumption is within the limit
		cur := m.UnitsConsumed()
		for k := 0; k < 5; k++ {
			if cur[k] > in.Limit[k] {
				in.Limit[k] = cur[k] + pick(r, 0, 1, 5, 30, 1000)
				if in.Limit[k] < cur[k] {
					in.Limit[k] = MaxU
				}
			}
		}
	}
	n := 1 + r.Intn(9)
	for i := 0; i < n; i++ {
		cur := m.UnitsConsumed()
		var u [5]uint64
		allFit := r.Intn(5) != 0
		for k := 0; k < 5; k++ {
			rem := uint64(0)
			if in.Limit[k] > cur[k] {
				rem = in.Limit[k] - cur[k]
			}
			x := r.Intn(10)
			if allFit && (x == 3 || x == 4 || x == 7) {
				x = 0
			}
			switch x {
			case 0, 1:
				u[k] = 0
				if rem > 0 {
					u[k] = uint64(r.Int63n(int64(min(rem, 1<<62)))) / uint64(n)
				}
			case 2:
				u[k] = rem // exactly fills
			case 3:
				u[k] = rem + 1 // one too many (rem+1 may wrap to 0 when rem = MaxU: then it fits)
			case 4:
				u[k] = MaxU - cur[k] + 1 // overflow edge (wraps to 0 when cur = 0)
			case 5:
				if rem > 0 {
					u[k] = rem - 1
				}
			case 6:
				u[k] = rem / 2
			case 7:
				u[k] = BU64(r)
			default:
				u[k] = 0
			}
		}
		in.Units = append(in.Units, u)
		m.Consume(hfees.Dimensions(u), hfees.Dimensions(in.Limit))
	}
	return RunBlock(in)
}

func Replay(raw json.RawMessage) (emit.Case, error) {
	var in BlockIn
	if err := json.Unmarshal(raw, &in); err != nil {
		return emit.Case{}, err
	}
	return RunBlock(in), nil
}
