// Driver for C22: the real validitywindow.BlockFetcherClient and Syncer against a scripted
// NetworkBlockFetcher (correct, partial, truncated, reordered, forged, unparsable, empty, erroring
// peers, in any sequence); "honest" entries are answered by the real BlockFetcherHandler.
//
// The client sleeps 500 ms after every request (constant backoff), so scenarios run concurrently;
// each scenario is independent and deterministic: the scripted fetcher runs on the client's own
// goroutine, the run ends either when the result channel is closed or when the script is exhausted
// (the fetcher then parks the client and the harness drains what was already emitted).  A client
// that keeps requesting after it has received genesis is detected through the request counter
// (F-22), never by waiting.
package backfill

import (
	"context"
	"encoding/binary"
	"encoding/json"
	"errors"
	"fmt"
	"math/rand"
	"strings"
	"sync"
	"sync/atomic"
	"testing"
	"time"

	"github.com/ava-labs/avalanchego/database"
	"github.com/ava-labs/avalanchego/ids"
	"github.com/ava-labs/avalanchego/trace"
	"github.com/ava-labs/avalanchego/utils/logging"

	"github.com/ava-labs/hypersdk/internal/validitywindow"
	"github.com/ava-labs/hypersdk/verifharness/emit"
)

// ---- scenario ----------------------------------------------------------------------------------

type Item struct {
	ID     uint64 `json:"id"`
	Expiry int64  `json:"e"`
}

type Block struct {
	ID     uint64 `json:"id"`
	Parent uint64 `json:"parent"`
	Height uint64 `json:"h"`
	Ts     int64  `json:"ts"`
	Items  []Item `json:"items"`
}

// one scripted answer
type Step struct {
	K      string   `json:"k"`             // honest | err | blocks
	Min    int64    `json:"min,omitempty"` // client mode: minTimestamp when the call returns
	Blocks []uint64 `json:"blocks,omitempty"` // block ids; 0 = unparsable bytes
}

type Scenario struct {
	W      int64   `json:"w"`
	Chain  []Block `json:"chain"`  // genesis first, target last
	Forged []Block `json:"forged"` // parseable blocks that are not on the chain
	Local  uint64  `json:"local"`  // chain blocks at or above this height are in the local index
	Syncer bool    `json:"syncer"`
	Min0   int64   `json:"min0"` // client mode: initial minTimestamp
	Script []Step  `json:"script"`
	Univ   []Item  `json:"univ"`
	Kind   string  `json:"kind"`
}

type honestRec struct {
	Height uint64   `json:"height"`
	Min    int64    `json:"min"`
	Served []uint64 `json:"served"`
}

type Result struct {
	Served  [][]uint64  `json:"served"` // per request: nil = error, else ids (0 = garbage)
	Mins    []int64     `json:"mins"`
	Honest  []honestRec `json:"honest"`
	Saved   []uint64    `json:"saved"`
	Closed  bool        `json:"closed"`
	Reqs    []uint64    `json:"reqs"`
	ReqMins []int64     `json:"req_mins"`
	Bits    []bool      `json:"bits"`
	Hang    bool        `json:"hang,omitempty"`
	// height asked for by the request that found the script exhausted (never answered)
	PendingReq *uint64 `json:"pending_req,omitempty"`
}

type mirror struct {
	Scenario
	Result Result `json:"result"`
}

// ---- harness block types -----------------------------------------------------------------------

func toID(n uint64) ids.ID {
	var id ids.ID
	binary.BigEndian.PutUint64(id[24:], n)
	id[0] = 0x22
	return id
}

func fromID(id ids.ID) uint64 { return binary.BigEndian.Uint64(id[24:]) }

type container struct {
	id     ids.ID
	expiry int64
}

func (c container) GetID() ids.ID    { return c.id }
func (c container) GetExpiry() int64 { return c.expiry }

type execBlock struct {
	n          uint64
	id, parent ids.ID
	height     uint64
	ts         int64
	items      []container
	set        map[ids.ID]struct{}
}

func (b *execBlock) GetID() ids.ID              { return b.id }
func (b *execBlock) GetParent() ids.ID          { return b.parent }
func (b *execBlock) GetTimestamp() int64        { return b.ts }
func (b *execBlock) GetHeight() uint64          { return b.height }
func (b *execBlock) GetBytes() []byte           { return []byte(fmt.Sprintf("blk-%d", b.n)) }
func (b *execBlock) GetContainers() []container { return b.items }
func (b *execBlock) Contains(id ids.ID) bool    { _, ok := b.set[id]; return ok }
func (b *execBlock) String() string             { return fmt.Sprintf("blk(%d)", b.n) }

func mkBlock(b Block) *execBlock {
	e := &execBlock{n: b.ID, id: toID(b.ID), parent: toID(b.Parent), height: b.Height, ts: b.Ts, set: map[ids.ID]struct{}{}}
	for _, it := range b.Items {
		c := container{id: toID(it.ID), expiry: it.Expiry}
		e.items = append(e.items, c)
		e.set[c.id] = struct{}{}
	}
	return e
}

type eb = validitywindow.ExecutionBlock[container]

// chain index + block store of the syncing node
type store struct {
	mu       sync.Mutex
	blocks   map[ids.ID]*execBlock
	saved    []uint64
	sentinel chan struct{}
}

func (s *store) GetExecutionBlock(_ context.Context, id ids.ID) (eb, error) {
	s.mu.Lock()
	defer s.mu.Unlock()
	if b, ok := s.blocks[id]; ok {
		return b, nil
	}
	return nil, database.ErrNotFound
}

var errSentinel = errors.New("harness sentinel: script exhausted")

func (s *store) SaveHistorical(blk eb) error {
	b := blk.(*execBlock)
	if b.n == sentinelID {
		// every block forwarded before the sentinel has been saved AND accepted by now
		close(s.sentinel)
		return errSentinel
	}
	s.mu.Lock()
	defer s.mu.Unlock()
	s.blocks[b.id] = b
	s.saved = append(s.saved, b.n)
	return nil
}

const sentinelID = ^uint64(0) - 7

// parser: the byte strings of known blocks (chain and forged) parse, anything else does not
type parser struct{ byBytes map[string]*execBlock }

func (p *parser) ParseBlock(_ context.Context, raw []byte) (eb, error) {
	if b, ok := p.byBytes[string(raw)]; ok {
		return b, nil
	}
	return nil, errors.New("unparsable")
}

// the serving peer's retriever for the real handler
type retriever struct {
	byHeight map[uint64]*execBlock
	slow     *atomic.Bool
	start    time.Time
}

func (r *retriever) GetBlockByHeight(_ context.Context, h uint64) (eb, error) {
	if time.Since(r.start) > 15*time.Millisecond {
		r.slow.Store(true) // near the handler's 50 ms budget: the scenario is re-run
	}
	if b, ok := r.byHeight[h]; ok {
		return b, nil
	}
	return nil, database.ErrNotFound
}

type sampler struct{}

func (sampler) Sample(context.Context, int) []ids.NodeID { return []ids.NodeID{{1}} }

// scripted peer
type fetcher struct {
	sc        *Scenario
	all       map[uint64]*execBlock
	byHeight  map[uint64]*execBlock
	k         int
	res       *Result
	min       *atomic.Int64 // client mode only
	exhausted chan struct{}
	once      sync.Once
	slow      atomic.Bool
}

func (f *fetcher) FetchBlocksFromPeer(ctx context.Context, _ ids.NodeID, req *validitywindow.BlockFetchRequest) (*validitywindow.BlockFetchResponse, error) {
	if f.k >= len(f.sc.Script) {
		f.once.Do(func() {
			h := req.BlockHeight
			f.res.PendingReq = &h
			close(f.exhausted)
		})
		<-ctx.Done()
		return nil, ctx.Err()
	}
	st := f.sc.Script[f.k]
	f.k++
	f.res.Reqs = append(f.res.Reqs, req.BlockHeight)
	f.res.ReqMins = append(f.res.ReqMins, req.MinTimestamp)
	if f.min != nil {
		f.min.Store(st.Min)
		f.res.Mins = append(f.res.Mins, st.Min)
	}
	switch st.K {
	case "err":
		f.res.Served = append(f.res.Served, nil)
		return nil, errors.New("peer error")
	case "honest":
		h := validitywindow.NewBlockFetcherHandler[eb](&retriever{byHeight: f.byHeight, slow: &f.slow, start: time.Now()})
		raw, appErr := h.AppRequest(ctx, ids.NodeID{1}, time.Time{}, req.MarshalCanoto())
		rec := honestRec{Height: req.BlockHeight, Min: req.MinTimestamp, Served: []uint64{}}
		if appErr != nil {
			f.res.Honest = append(f.res.Honest, rec)
			f.res.Served = append(f.res.Served, nil)
			return nil, appErr
		}
		resp := new(validitywindow.BlockFetchResponse)
		if err := resp.UnmarshalCanoto(raw); err != nil {
			panic(err)
		}
		served := []uint64{}
		for _, b := range resp.Blocks {
			var n uint64
			_, _ = fmt.Sscanf(string(b), "blk-%d", &n)
			served = append(served, n)
		}
		rec.Served = served
		f.res.Honest = append(f.res.Honest, rec)
		f.res.Served = append(f.res.Served, served)
		return resp, nil
	default:
		resp := &validitywindow.BlockFetchResponse{}
		served := []uint64{}
		for _, id := range st.Blocks {
			if b, ok := f.all[id]; ok && id != 0 {
				resp.Blocks = append(resp.Blocks, b.GetBytes())
				served = append(served, id)
			} else {
				resp.Blocks = append(resp.Blocks, []byte("garbage"))
				served = append(served, 0)
			}
		}
		f.res.Served = append(f.res.Served, served)
		return resp, nil
	}
}

// wrapper handed to the Syncer: forwards the real client's blocks unchanged and, when the script
// is exhausted, drains the client's channel and appends a sentinel so the harness knows the syncer
// goroutine has finished processing everything emitted so far
type forwardingFetcher struct {
	real      *validitywindow.BlockFetcherClient[eb]
	exhausted chan struct{}
}

func (w *forwardingFetcher) FetchBlocks(ctx context.Context, blk validitywindow.Block, min *atomic.Int64) <-chan eb {
	in := w.real.FetchBlocks(ctx, blk, min)
	out := make(chan eb)
	go func() {
		for {
			select {
			case b, ok := <-in:
				if !ok {
					close(out)
					return
				}
				out <- b
			case <-w.exhausted:
				for {
					select {
					case b, ok := <-in:
						if !ok {
							close(out)
							return
						}
						out <- b
						continue
					default:
					}
					break
				}
				out <- &execBlock{n: sentinelID, id: toID(sentinelID), set: map[ids.ID]struct{}{}}
				return
			}
		}
	}()
	return out
}

// ---- running one scenario ----------------------------------------------------------------------

func runOnce(sc Scenario) (Result, bool) {
	res := Result{Served: [][]uint64{}, Honest: []honestRec{}, Saved: []uint64{}, Reqs: []uint64{}, Bits: []bool{}}
	all := map[uint64]*execBlock{}
	byHeight := map[uint64]*execBlock{}
	p := &parser{byBytes: map[string]*execBlock{}}
	st := &store{blocks: map[ids.ID]*execBlock{}, sentinel: make(chan struct{})}
	for _, b := range sc.Chain {
		e := mkBlock(b)
		all[b.ID] = e
		byHeight[b.Height] = e
		p.byBytes[string(e.GetBytes())] = e
		if b.Height >= sc.Local {
			st.blocks[e.id] = e
		}
	}
	for _, b := range sc.Forged {
		e := mkBlock(b)
		all[b.ID] = e
		p.byBytes[string(e.GetBytes())] = e
	}
	target := all[sc.Chain[len(sc.Chain)-1].ID]
	f := &fetcher{sc: &sc, all: all, byHeight: byHeight, res: &res, exhausted: make(chan struct{})}
	ctx, cancel := context.WithCancel(context.Background())
	defer cancel()
	client := validitywindow.NewBlockFetcherClient[eb](f, p, sampler{})
	deadline := time.After(time.Duration(len(sc.Script)+4) * 2 * time.Second)

	if !sc.Syncer {
		var min atomic.Int64
		min.Store(sc.Min0)
		f.min = &min
		start := byHeight[sc.Local]
		ch := client.FetchBlocks(ctx, start, &min)
		for done := false; !done; {
			select {
			case b, ok := <-ch:
				if !ok {
					res.Closed = true
					done = true
					break
				}
				res.Saved = append(res.Saved, b.(*execBlock).n)
			case <-f.exhausted:
				for more := true; more; {
					select {
					case b, ok := <-ch:
						if !ok {
							res.Closed = true
							more = false
							break
						}
						res.Saved = append(res.Saved, b.(*execBlock).n)
					default:
						more = false
					}
				}
				done = true
			case <-deadline:
				res.Hang = true
				done = true
			}
		}
		return res, f.slow.Load()
	}

	getW := func(int64) int64 { return sc.W }
	tvw, err := validitywindow.NewTimeValidityWindow[container](ctx, logging.NoLog{}, trace.Noop, st, target, getW)
	if err != nil {
		panic(err)
	}
	// NewTimeValidityWindow already populated from the local blocks; Syncer.Start populates again
	// on the same window (as vm/statesync.go does with the VM's window)
	syncer := validitywindow.NewSyncer[container, eb](st, tvw, &forwardingFetcher{real: client, exhausted: f.exhausted}, getW)
	if err := syncer.Start(ctx, target); err != nil {
		panic(err)
	}
	waitErr := make(chan error, 1)
	go func() { waitErr <- syncer.Wait(ctx) }()
	select {
	case err := <-waitErr:
		if err == nil {
			res.Closed = true
		} else {
			<-st.sentinel
		}
	case <-deadline:
		res.Hang = true
	}
	st.mu.Lock()
	res.Saved = append(res.Saved, st.saved...)
	st.mu.Unlock()
	items := make([]container, len(sc.Univ))
	for i, it := range sc.Univ {
		items[i] = container{id: toID(it.ID), expiry: it.Expiry}
	}
	bits, err := tvw.IsRepeat(ctx, target, target.ts, items)
	if err != nil {
		panic(err)
	}
	for i := range items {
		res.Bits = append(res.Bits, bits.Contains(i))
	}
	return res, f.slow.Load()
}

var soloMu sync.Mutex

// runScenario re-runs a scenario whose serving peer came near the real handler's 50 ms budget (its answer may then be
// shorter than the model's, for timing reasons only): up to 4 times among the other concurrent scenarios, then up to 4
// times alone.  ok = false: every attempt was slow (an overloaded machine); such a case is not reported at all.
func runScenario(sc Scenario) (Result, bool) {
	var res Result
	for try := 0; try < 4; try++ {
		var slow bool
		res, slow = runOnce(sc)
		if !slow {
			return res, true
		}
	}
	soloMu.Lock()
	defer soloMu.Unlock()
	for try := 0; try < 4; try++ {
		time.Sleep(50 * time.Millisecond)
		var slow bool
		res, slow = runOnce(sc)
		if !slow {
			return res, true
		}
	}
	return res, false
}

// ---- Coq printing ------------------------------------------------------------------------------

func coqItems(items []Item) string {
	s := make([]string, len(items))
	for i, it := range items {
		s[i] = emit.Pair(emit.N(it.ID), emit.Z(it.Expiry))
	}
	return emit.List("N * Z", s)
}

func coqBlock(b Block) string {
	return emit.App("mkB", emit.N(b.ID), emit.N(b.Parent), emit.N(b.Height), emit.Z(b.Ts), coqItems(b.Items))
}

func coqBlocks(bs []Block) string {
	s := make([]string, len(bs))
	for i, b := range bs {
		s[i] = coqBlock(b)
	}
	return emit.List("block", s)
}

func coqNs(ns []uint64) string {
	s := make([]string, len(ns))
	for i, n := range ns {
		s[i] = emit.N(n)
	}
	return emit.List("N", s)
}

func coqCase(sc Scenario, res Result) string {
	byID := map[uint64]Block{}
	for _, b := range sc.Chain {
		byID[b.ID] = b
	}
	for _, b := range sc.Forged {
		byID[b.ID] = b
	}
	min := sc.Min0
	if sc.Syncer {
		t := sc.Chain[len(sc.Chain)-1]
		min = t.Ts - sc.W
		if min < 0 {
			min = 0
		}
	}
	resps := make([]string, len(res.Served))
	for i, served := range res.Served {
		m := min
		if !sc.Syncer {
			m = res.Mins[i]
		}
		if served == nil {
			resps[i] = emit.Pair(emit.Z(m), "(@None (list (option block)))")
			continue
		}
		raws := make([]string, len(served))
		for j, id := range served {
			if b, ok := byID[id]; ok && id != 0 {
				raws[j] = emit.Some(coqBlock(b))
			} else {
				raws[j] = "(@None block)"
			}
		}
		resps[i] = emit.Pair(emit.Z(m), emit.Some(emit.List("option block", raws)))
	}
	honest := make([]string, len(res.Honest))
	for i, h := range res.Honest {
		honest[i] = emit.Pair(emit.Pair(emit.N(h.Height), emit.Z(h.Min)), coqNs(h.Served))
	}
	bits := make([]string, len(res.Bits))
	for i, b := range res.Bits {
		bits[i] = emit.Bool(b)
	}
	return emit.App("mk", emit.Z(sc.W), coqBlocks(sc.Chain), coqBlocks(sc.Forged), emit.N(sc.Local), emit.Bool(sc.Syncer), emit.Z(sc.Min0),
		emit.List("Z * option (list (option block))", resps), emit.List("N * Z * list N", honest), coqItems(sc.Univ),
		coqNs(res.Saved), emit.Bool(res.Closed), coqNs(res.Reqs), emit.List("bool", bits))
}

// ---- signature ---------------------------------------------------------------------------------

func signature(sc Scenario, res Result) string {
	byID := map[uint64]Block{}
	for _, b := range sc.Chain {
		byID[b.ID] = b
	}
	if res.Hang {
		return "backfill-run-did-not-finish-in-time"
	}
	if len(res.Saved) > 0 {
		last, ok := byID[res.Saved[len(res.Saved)-1]]
		// the whole true ancestry down to genesis was received in order, yet the client keeps
		// requesting (height 2^64-1) instead of completing
		if ok && last.Height == 0 && !res.Closed {
			linked := true
			for i, id := range res.Saved {
				b, ok := byID[id]
				if !ok || int(b.Height) != len(res.Saved)-1-i {
					linked = false
				}
			}
			stuck := (len(res.Reqs) > 0 && res.Reqs[len(res.Reqs)-1] == ^uint64(0)) ||
				(res.PendingReq != nil && *res.PendingReq == ^uint64(0))
			if linked && stuck {
				return "client-never-completes-after-reaching-genesis"
			}
		}
	}
	return "backfill-saved-or-tracked-blocks-wrong"
}

func run(sc Scenario) emit.Case {
	res, ok := runScenario(sc)
	if !ok {
		return emit.Case{} // skipped (see runScenario)
	}
	nontrivial := len(res.Saved) > 0 && len(res.Reqs) >= 2
	return emit.Case{Coq: coqCase(sc, res), JSON: mirror{sc, res}, Nontrivial: nontrivial, Kind: sc.Kind, Sig: signature(sc, res)}
}

// ---- generator ---------------------------------------------------------------------------------

func gen(r *rand.Rand) Scenario {
	sc := Scenario{W: int64(1 + r.Intn(4)), Syncer: r.Intn(4) != 0}
	n := 4 + r.Intn(5) // chain length incl. genesis
	maxStep := int64(1 + r.Intn(2))
	univ := []Item{}
	for i := 0; i < 5; i++ {
		univ = append(univ, Item{ID: uint64(100 + i), Expiry: int64(r.Intn(int(int64(n)*maxStep) + 3))})
	}
	sc.Univ = append(sc.Univ, univ...)
	sc.Univ = append(sc.Univ, Item{ID: 150, Expiry: 5}) // only ever in forged blocks
	ts := int64(0)
	young := r.Intn(3) == 0 // chain younger than the window: the backfill has to go down to genesis
	for h := 0; h < n; h++ {
		b := Block{ID: uint64(10 + h), Parent: uint64(10 + h - 1), Height: uint64(h), Ts: ts}
		if h == 0 {
			b.Parent = 9
		}
		if h > 0 {
			for _, u := range univ {
				if r.Intn(3) == 0 {
					b.Items = append(b.Items, u)
				}
			}
		}
		sc.Chain = append(sc.Chain, b)
		ts += r.Int63n(maxStep + 1)
	}
	target := sc.Chain[n-1]
	if young {
		sc.W = target.Ts + int64(r.Intn(2))
		if sc.W == 0 {
			sc.W = 1
		}
	}
	// local blocks: the target and possibly a few ancestors
	sc.Local = uint64(n - 1 - r.Intn(2))
	if !sc.Syncer {
		sc.Min0 = int64(r.Intn(int(target.Ts) + 2))
	}
	// forged blocks: same height/parent as a true block but a different id, or pointing elsewhere
	nF := r.Intn(3)
	for i := 0; i < nF; i++ {
		tb := sc.Chain[r.Intn(n)]
		fb := Block{ID: uint64(50 + i), Parent: tb.Parent, Height: tb.Height, Ts: tb.Ts, Items: []Item{{ID: 150, Expiry: 5}}}
		if r.Intn(2) == 0 {
			fb.Ts = 0
		}
		sc.Forged = append(sc.Forged, fb)
	}
	// script
	kind := []string{}
	// "next" tracks the height the client should ask for if everything served so far was accepted;
	// only used to bias the malicious answers towards the interesting region
	next := int(sc.Local) - 1
	nSteps := 3 + r.Intn(5)
	min := sc.Min0
	for i := 0; i < nSteps; i++ {
		st := Step{}
		if !sc.Syncer {
			if r.Intn(4) == 0 {
				min += int64(r.Intn(2)) // the forward sync raised the minimum
			}
			st.Min = min
		}
		desc := func(from, cnt int) []uint64 {
			var out []uint64
			for h := from; h >= 0 && cnt > 0; h, cnt = h-1, cnt-1 {
				out = append(out, sc.Chain[h].ID)
			}
			return out
		}
		if next < 0 {
			next = 0
		}
		switch c := r.Intn(100); {
		case c < 35:
			st.K = "honest"
			kind = append(kind, "honest")
			next -= 8
		case c < 45:
			st.K = "err"
			kind = append(kind, "err")
		case c < 55: // partial: a correct prefix of the answer
			st.K = "blocks"
			cnt := 1 + r.Intn(2)
			st.Blocks = desc(next, cnt)
			next -= cnt
			kind = append(kind, "partial")
		case c < 63: // truncated by garbage in the middle
			st.K = "blocks"
			st.Blocks = append(desc(next, 1), 0)
			st.Blocks = append(st.Blocks, desc(next-1, 2)...)
			next--
			kind = append(kind, "garbage")
		case c < 71: // reordered
			st.K = "blocks"
			bs := desc(next, 3)
			if len(bs) >= 2 {
				j := 1 + r.Intn(len(bs)-1)
				bs[0], bs[j] = bs[j], bs[0]
			}
			st.Blocks = bs
			kind = append(kind, "reordered")
		case c < 79: // a gap: skips one block
			st.K = "blocks"
			bs := desc(next, 1)
			bs = append(bs, desc(next-2, 2)...)
			st.Blocks = bs
			next--
			kind = append(kind, "gap")
		case c < 89 && len(sc.Forged) > 0: // forged block first or after a correct one
			st.K = "blocks"
			fb := sc.Forged[r.Intn(len(sc.Forged))].ID
			if r.Intn(2) == 0 {
				st.Blocks = append([]uint64{fb}, desc(next, 2)...)
			} else {
				st.Blocks = append(desc(next, 1), fb)
				st.Blocks = append(st.Blocks, desc(next-1, 1)...)
				next--
			}
			kind = append(kind, "forged")
		case c < 94: // empty
			st.K = "blocks"
			st.Blocks = []uint64{}
			kind = append(kind, "empty")
		default: // stale: blocks the client already has, or from above
			st.K = "blocks"
			st.Blocks = desc(min64(next+2, n-1), 2)
			kind = append(kind, "stale")
		}
		sc.Script = append(sc.Script, st)
	}
	if young {
		kind = append(kind, "young")
	}
	sc.Kind = "client"
	if sc.Syncer {
		sc.Kind = "syncer"
	}
	sc.Kind += ":" + strings.Join(dedup(kind), "+")
	return sc
}

func min64(a, b int) int {
	if a < b {
		return a
	}
	return b
}

func dedup(l []string) []string {
	seen := map[string]bool{}
	var out []string
	for _, x := range []string{"honest", "err", "partial", "garbage", "reordered", "gap", "forged", "empty", "stale", "young"} {
		for _, y := range l {
			if x == y && !seen[x] {
				seen[x] = true
				out = append(out, x)
			}
		}
	}
	return out
}

func TestDriver(t *testing.T) {
	env := emit.GetEnv()
	if env.Out == "" {
		t.Skip("VERIF_OUT not set")
	}
	w, err := emit.NewWriter(env.Out)
	if err != nil {
		t.Fatal(err)
	}
	defer w.Close()
	var scs []Scenario
	if env.Mode == "replay" {
		raws, err := emit.ReadReplay(env.Replay)
		if err != nil {
			t.Fatal(err)
		}
		for _, raw := range raws {
			var sc Scenario
			if err := json.Unmarshal(raw, &sc); err != nil {
				t.Fatal(err)
			}
			if len(sc.Chain) == 0 {
				continue
			}
			if !strings.HasPrefix(sc.Kind, "replay") {
				sc.Kind = "replay:" + sc.Kind
			}
			scs = append(scs, sc)
		}
	} else {
		r := env.Rand()
		for i := 0; i < env.N; i++ {
			scs = append(scs, gen(r))
		}
	}
	// scenarios mostly sleep (500 ms client backoff per request): run them concurrently
	out := make([]emit.Case, len(scs))
	sem := make(chan struct{}, 48)
	var wg sync.WaitGroup
	for i := range scs {
		wg.Add(1)
		sem <- struct{}{}
		go func(i int) {
			defer wg.Done()
			defer func() { <-sem }()
			out[i] = run(scs[i])
		}(i)
	}
	wg.Wait()
	for _, c := range out {
		if c.Coq == "" {
			continue
		}
		_ = w.Put(c)
	}
}
