// Driver for C36: x/dsmr.ChunkStorage on memdb / pebble, reopened on the same database at arbitrary points
// of a history of local/remote adds, certificate updates and SetMin calls that save or expire chunks.
package dsmrstore

import (
	"bytes"
	"context"
	"encoding/binary"
	"encoding/json"
	"errors"
	"fmt"
	"math/rand"
	"os"
	"testing"

	"github.com/ava-labs/avalanchego/database"
	"github.com/ava-labs/avalanchego/database/memdb"
	"github.com/ava-labs/avalanchego/ids"
	"github.com/ava-labs/avalanchego/utils/wrappers"
	"github.com/prometheus/client_golang/prometheus"

	"github.com/ava-labs/hypersdk/codec"
	"github.com/ava-labs/hypersdk/consts"
	"github.com/ava-labs/hypersdk/internal/pebble"
	"github.com/ava-labs/hypersdk/utils"
	"github.com/ava-labs/hypersdk/verifharness/emit"
	"github.com/ava-labs/hypersdk/x/dsmr"
	"github.com/ava-labs/hypersdk/x/dsmr/dsmrtest"
)

// ---- inputs ----------------------------------------------------------------------------------

type chunkSpec struct {
	Prod   int   `json:"prod"`
	Expiry int64 `json:"expiry"`
	NTx    int   `json:"ntx"` // number of txs: varies the encoded length
}

type opSpec struct {
	K     string `json:"k"` // addlocal | addremote | setcert | setmin | reopen
	C     int    `json:"c,omitempty"`
	Cert  int    `json:"cert,omitempty"` // certificate object index; -1 = nil (addlocal)
	VOK   bool   `json:"vok,omitempty"`  // the verifier accepts
	T     int64  `json:"t,omitempty"`
	Saves []int  `json:"saves,omitempty"`
}

type input struct {
	NProd  int         `json:"nprod"`
	Pebble bool        `json:"pebble"`
	Chunks []chunkSpec `json:"chunks"`
	Ops    []opSpec    `json:"ops"`
}

type outObs struct {
	RC      int     `json:"rc"`
	Chunks  [][]int `json:"chunks"`
	Weights []uint64 `json:"weights"`
	DBMin   *int64  `json:"dbmin"`
}

type mirror struct {
	input
	Lens []int    `json:"lens"`
	Outs []outObs `json:"outs"`
}

// ---- collaborators ---------------------------------------------------------------------------

type verifier struct{ ok bool }

func (v *verifier) Verify(dsmr.Chunk[dsmrtest.Tx]) error {
	if v.ok {
		return nil
	}
	return errors.New("scripted: invalid chunk")
}
func (*verifier) SetMin(int64) {}
func (v *verifier) VerifyCertificate(context.Context, *dsmr.ChunkCertificate) error {
	if v.ok {
		return nil
	}
	return errors.New("scripted: invalid certificate")
}

type rules struct{ limit uint64 }

func (rules) GetValidityWindow() int64                       { return 1 << 40 }
func (r rules) GetMaxAccumulatedProducerChunkWeight() uint64 { return r.limit }

type ruleFactory struct{ limit *uint64 }

func (f ruleFactory) GetRules(int64) dsmr.Rules { return rules{limit: *f.limit} }

func producer(i int) ids.NodeID {
	var n ids.NodeID
	n[0] = byte(0x50 + i)
	n[19] = byte(i + 1)
	return n
}

type builtChunk struct {
	chunk dsmr.Chunk[dsmrtest.Tx]
	bytes []byte
	id    ids.ID
}

func buildChunk(prod int, expiry int64, ntx int, salt int) (builtChunk, error) {
	txs := make([]dsmrtest.Tx, ntx)
	for i := range txs {
		var id ids.ID
		id[0], id[1], id[2] = byte(salt), byte(i), 0x77
		txs[i] = dsmrtest.Tx{ID: id, Expiry: 1_000_000, Sponsor: codec.Address{byte(salt)}}
	}
	raw := dsmr.Chunk[dsmrtest.Tx]{UnsignedChunk: dsmr.UnsignedChunk[dsmrtest.Tx]{
		Producer: producer(prod), Expiry: expiry, Txs: txs,
	}}
	raw.Signer[0] = byte(salt)
	packer := wrappers.Packer{Bytes: make([]byte, 0, 1024), MaxSize: consts.NetworkSizeLimit}
	if err := codec.LinearCodec.MarshalInto(&raw, &packer); err != nil {
		return builtChunk{}, err
	}
	c, err := dsmr.ParseChunk[dsmrtest.Tx](packer.Bytes)
	if err != nil {
		return builtChunk{}, err
	}
	return builtChunk{chunk: c, bytes: packer.Bytes, id: utils.ToID(packer.Bytes)}, nil
}

func chunkKey(prefix byte, slot int64, id ids.ID) []byte {
	b := make([]byte, 1+8+ids.IDLen)
	b[0] = prefix
	binary.BigEndian.PutUint64(b[1:9], uint64(slot))
	copy(b[9:], id[:])
	return b
}

// ---- running one history ----------------------------------------------------------------------

const nCertObjs = 3

func run(in input, kind string) (c emit.Case, err error) {
	defer func() {
		if r := recover(); r != nil {
			err = fmt.Errorf("panic: %v", r)
		}
	}()
	ctx := context.Background()
	chunks := make([]builtChunk, len(in.Chunks))
	seen := map[ids.ID]bool{}
	for i, cs := range in.Chunks {
		bc, e := buildChunk(cs.Prod, cs.Expiry, cs.NTx, i)
		if e != nil {
			return c, e
		}
		if seen[bc.id] {
			return c, fmt.Errorf("duplicate chunk id in table")
		}
		seen[bc.id] = true
		chunks[i] = bc
	}
	// probe chunks (never stored) for CheckRateLimit, one per producer
	probes := make([]builtChunk, in.NProd)
	for p := range probes {
		bc, e := buildChunk(p, 1, 1, 200+p)
		if e != nil {
			return c, e
		}
		probes[p] = bc
	}
	var total uint64
	for _, bc := range chunks {
		total += uint64(len(bc.bytes))
	}
	// certificate objects per chunk
	certs := make([][]*dsmr.ChunkCertificate, len(chunks))
	certIndex := map[*dsmr.ChunkCertificate][2]int{}
	for i, bc := range chunks {
		for k := 0; k < nCertObjs; k++ {
			cert := &dsmr.ChunkCertificate{ChunkReference: dsmr.ChunkReference{ChunkID: bc.id, Producer: bc.chunk.Producer, Expiry: bc.chunk.Expiry}}
			certs[i] = append(certs[i], cert)
			certIndex[cert] = [2]int{i, k}
		}
	}

	var db database.Database
	var dir string
	openDB := func() error {
		if in.Pebble {
			d, e := pebble.New(dir, pebble.NewDefaultConfig(), prometheus.NewRegistry())
			if e != nil {
				return e
			}
			db = d
			return nil
		}
		if db == nil {
			db = memdb.New()
		}
		return nil
	}
	if in.Pebble {
		dir, err = os.MkdirTemp("", "verif-dsmrstore-")
		if err != nil {
			return c, err
		}
		defer os.RemoveAll(dir)
	}
	if e := openDB(); e != nil {
		return c, e
	}
	defer func() {
		if db != nil {
			_ = db.Close()
		}
	}()
	ver := &verifier{ok: true}
	limit := uint64(0)
	rf := ruleFactory{limit: &limit}
	storage, e := dsmr.NewChunkStorage[dsmrtest.Tx](ver, db, rf)
	if e != nil {
		return c, e
	}

	weightOf := func(p int) (uint64, error) {
		l := uint64(len(probes[p].bytes))
		// smallest limit under which the probe passes = len + weight
		lo, hi := l, l+total+1
		limit = hi
		if storage.CheckRateLimit(probes[p].chunk) != nil {
			return 0, fmt.Errorf("producer weight above the total length of all chunks")
		}
		for lo < hi {
			mid := lo + (hi-lo)/2
			limit = mid
			if storage.CheckRateLimit(probes[p].chunk) == nil {
				hi = mid
			} else {
				lo = mid + 1
			}
		}
		return lo - l, nil
	}

	dbHas := func(prefix byte, bc builtChunk) (int, error) {
		v, e := db.Get(chunkKey(prefix, bc.chunk.Expiry, bc.id))
		if errors.Is(e, database.ErrNotFound) {
			return 0, nil
		}
		if e != nil {
			return 0, e
		}
		if !bytes.Equal(v, bc.bytes) {
			return 2, nil
		}
		return 1, nil
	}

	var outs []outObs
	var coqOps, coqOuts []string
	nontrivial := false
	savedSomething := false
	sig := "chunk-storage-observables-differ"
	for _, o := range in.Ops {
		obs := outObs{}
		switch o.K {
		case "addlocal":
			var cert *dsmr.ChunkCertificate
			certTerm := "None"
			if o.Cert >= 0 {
				cert = certs[o.C][o.Cert]
				certTerm = emit.Some(emit.N(uint64(o.Cert)))
			}
			if e := storage.AddLocalChunkWithCert(chunks[o.C].chunk, cert); e != nil {
				obs.RC = 1
			}
			coqOps = append(coqOps, emit.App("OAddLocal", emit.N(uint64(o.C)), certTerm))
		case "addremote":
			ver.ok = o.VOK
			if _, e := storage.VerifyRemoteChunk(chunks[o.C].chunk); e != nil {
				obs.RC = 1
			}
			ver.ok = true
			coqOps = append(coqOps, emit.App("OAddRemote", emit.N(uint64(o.C)), emit.Bool(o.VOK)))
		case "setcert":
			ver.ok = o.VOK
			if e := storage.SetChunkCert(ctx, chunks[o.C].id, certs[o.C][o.Cert]); e != nil {
				obs.RC = 1
			}
			ver.ok = true
			coqOps = append(coqOps, emit.App("OSetCert", emit.N(uint64(o.C)), emit.N(uint64(o.Cert)), emit.Bool(o.VOK)))
		case "setmin":
			saveIDs := make([]ids.ID, len(o.Saves))
			saveTerms := make([]string, len(o.Saves))
			for i, s := range o.Saves {
				saveIDs[i] = chunks[s].id
				saveTerms[i] = emit.N(uint64(s))
			}
			if e := storage.SetMin(o.T, saveIDs); e != nil {
				obs.RC = 1
			} else if len(o.Saves) > 0 {
				savedSomething = true
			}
			coqOps = append(coqOps, emit.App("OSetMin", emit.Z(o.T), emit.List("N", saveTerms)))
		case "reopen":
			if savedSomething {
				nontrivial = true
			}
			if in.Pebble {
				if e := db.Close(); e != nil {
					return c, e
				}
				db = nil
				if e := openDB(); e != nil {
					return c, e
				}
			}
			storage, e = dsmr.NewChunkStorage[dsmrtest.Tx](ver, db, rf)
			if e != nil {
				return c, fmt.Errorf("reopen failed: %w", e)
			}
			coqOps = append(coqOps, "OReopen")
		default:
			return c, fmt.Errorf("unknown op %q", o.K)
		}

		// ---- observe
		gathered := map[int]int{}
		for _, cert := range storage.GatherChunkCerts() {
			ix, ok := certIndex[cert]
			if !ok {
				return c, fmt.Errorf("GatherChunkCerts returned an unknown certificate")
			}
			if _, dup := gathered[ix[0]]; dup {
				return c, fmt.Errorf("GatherChunkCerts returned two certificates for one chunk")
			}
			gathered[ix[0]] = ix[1] + 1
		}
		rowTerms := make([]string, len(chunks))
		for i, bc := range chunks {
			row := make([]int, 5)
			if b, e := storage.GetChunkBytes(bc.chunk.Expiry+1000, bc.id); e == nil {
				row[0] = 1
				if !bytes.Equal(b, bc.bytes) {
					row[0] = 2
				}
			} else if !errors.Is(e, database.ErrNotFound) {
				row[0] = 3
			}
			if b, e := storage.GetChunkBytes(bc.chunk.Expiry, bc.id); e == nil {
				row[1] = 1
				if !bytes.Equal(b, bc.bytes) {
					row[1] = 2
				}
			} else if !errors.Is(e, database.ErrNotFound) {
				row[1] = 3
			}
			row[2] = gathered[i]
			if row[3], e = dbHas(1, bc); e != nil {
				return c, e
			}
			if row[4], e = dbHas(2, bc); e != nil {
				return c, e
			}
			if row[0] != row[3] {
				sig = "memory-pending-set-differs-from-pending-keys-in-db"
			}
			obs.Chunks = append(obs.Chunks, row)
			items := make([]string, 5)
			for j, v := range row {
				items[j] = emit.N(uint64(v))
			}
			rowTerms[i] = emit.List("N", items)
		}
		wTerms := make([]string, in.NProd)
		for p := 0; p < in.NProd; p++ {
			w, e := weightOf(p)
			if e != nil {
				return c, e
			}
			obs.Weights = append(obs.Weights, w)
			wTerms[p] = emit.N(w)
		}
		minTerm := "None"
		if v, e := db.Get([]byte{0, 0}); e == nil {
			if len(v) != 8 {
				return c, fmt.Errorf("min slot record of length %d", len(v))
			}
			m := int64(binary.BigEndian.Uint64(v))
			obs.DBMin = &m
			minTerm = emit.Some(emit.Z(m))
		} else if !errors.Is(e, database.ErrNotFound) {
			return c, e
		}
		outs = append(outs, obs)
		coqOuts = append(coqOuts, emit.App("mkO", emit.N(uint64(obs.RC)), emit.List("list N", rowTerms), emit.List("N", wTerms), minTerm))
	}

	tbl := make([]string, len(chunks))
	lens := make([]int, len(chunks))
	for i, bc := range chunks {
		lens[i] = len(bc.bytes)
		tbl[i] = emit.App("mkCI", emit.N(uint64(in.Chunks[i].Prod)), emit.Z(in.Chunks[i].Expiry), emit.N(uint64(len(bc.bytes))))
	}
	coq := emit.App("mk", emit.List("chunkinfo", tbl), emit.N(uint64(in.NProd)), emit.List("op", coqOps), emit.List("out", coqOuts))
	return emit.Case{Coq: coq, JSON: mirror{in, lens, outs}, Nontrivial: nontrivial, Kind: kind, Sig: sig}, nil
}

// ---- generators -------------------------------------------------------------------------------

var expiries = []int64{5, 10, 15, 20}

func gen(r *rand.Rand) (input, string) {
	in := input{NProd: 2, Pebble: r.Intn(10) == 0}
	n := 4 + r.Intn(2)
	for i := 0; i < n; i++ {
		e := expiries[r.Intn(len(expiries))]
		if r.Intn(12) == 0 {
			e = 0 // never tracked by the emap
		}
		in.Chunks = append(in.Chunks, chunkSpec{Prod: r.Intn(2), Expiry: e, NTx: 1 + r.Intn(3)})
	}
	nops := 5 + r.Intn(26)
	// ghost view used only to steer generation (what is pending, which chunks hold a certificate)
	pending := map[int]bool{}
	hasCert := map[int]bool{}
	min := int64(0)
	failing := r.Intn(6) == 0 // allow SetMin calls that fail (unknown / duplicate save ids)
	kind := "memdb"
	if in.Pebble {
		kind = "pebble"
	}
	if failing {
		kind += "+failing-setmin"
	}
	pendingList := func() []int {
		var l []int
		for i := range in.Chunks {
			if pending[i] {
				l = append(l, i)
			}
		}
		return l
	}
	for len(in.Ops) < nops {
		x := r.Intn(100)
		switch {
		case x < 28:
			c := r.Intn(n)
			cert := r.Intn(nCertObjs+1) - 1
			in.Ops = append(in.Ops, opSpec{K: "addlocal", C: c, Cert: cert})
			if !pending[c] {
				hasCert[c] = false
			}
			pending[c] = true
			if cert >= 0 {
				hasCert[c] = true
			}
		case x < 44:
			c := r.Intn(n)
			if pending[c] && !hasCert[c] {
				// VerifyRemoteChunk dereferences the nil certificate of an already pending chunk (the code
				// documents "caller has verified this does not add a duplicate chunk"): not generated
				continue
			}
			vok := r.Intn(5) != 0
			in.Ops = append(in.Ops, opSpec{K: "addremote", C: c, VOK: vok})
			if vok && !pending[c] {
				pending[c] = true
				hasCert[c] = false
			}
		case x < 56:
			c := r.Intn(n)
			vok := r.Intn(5) != 0
			in.Ops = append(in.Ops, opSpec{K: "setcert", C: c, Cert: r.Intn(nCertObjs), VOK: vok})
			if vok && pending[c] {
				hasCert[c] = true
			}
		case x < 80:
			// SetMin: usually forward, around the expiry values; saves drawn from the pending chunks
			switch r.Intn(6) {
			case 0:
				min = expiries[r.Intn(len(expiries))] + int64(r.Intn(3)) - 1
			case 1: // unchanged
			case 2:
				min -= int64(r.Intn(4)) // backwards
			default:
				min += int64(r.Intn(7))
			}
			var saves []int
			pl := pendingList()
			r.Shuffle(len(pl), func(i, j int) { pl[i], pl[j] = pl[j], pl[i] })
			if len(pl) > 0 && r.Intn(4) != 0 {
				saves = pl[:1+r.Intn(len(pl))]
				if len(saves) > 2 && r.Intn(2) == 0 {
					saves = saves[:2]
				}
			}
			if failing && r.Intn(3) == 0 {
				if len(saves) > 0 && r.Intn(2) == 0 {
					saves = append(saves, saves[0]) // duplicate id
				} else {
					saves = append(saves, r.Intn(n)) // possibly unknown id
				}
			}
			in.Ops = append(in.Ops, opSpec{K: "setmin", T: min, Saves: saves})
			ok := true
			tmp := map[int]bool{}
			for k, v := range pending {
				tmp[k] = v
			}
			for _, s := range saves {
				if !tmp[s] {
					ok = false
					break
				}
				tmp[s] = false
			}
			if ok {
				pending = tmp
				for i, cs := range in.Chunks {
					if pending[i] && cs.Expiry != 0 && cs.Expiry < min {
						pending[i] = false
					}
				}
			} else {
				// memory and db now disagree; a reopen follows soon, resynchronise the ghost view loosely:
				// the steering view is only a heuristic, the model decides what is expected
				for _, s := range saves {
					if !tmp[s] {
						break
					}
				}
				in.Ops = append(in.Ops, opSpec{K: "reopen"})
				for i := range hasCert {
					hasCert[i] = false
				}
			}
		default:
			in.Ops = append(in.Ops, opSpec{K: "reopen"})
			for i := range hasCert {
				hasCert[i] = false
			}
		}
	}
	if r.Intn(3) != 0 {
		in.Ops = append(in.Ops, opSpec{K: "reopen"})
	}
	return in, kind
}

func put(t *testing.T, w *emit.Writer, in input, kind string) {
	c, err := run(in, kind)
	if err != nil {
		c = emit.Case{Coq: "(mk (@nil chunkinfo) 0%N [OReopen] (@nil out))", JSON: in, Nontrivial: true, Kind: kind + ":driver-error", Sig: "dsmrstore-driver-error: " + err.Error()}
	}
	if err := w.Put(c); err != nil {
		t.Fatal(err)
	}
}

func TestDriver(t *testing.T) {
	env := emit.GetEnv()
	if env.Out == "" {
		t.Skip("VERIF_OUT not set")
	}
	w, err := emit.NewWriter(env.Out)
	if err != nil {
		t.Fatal(err)
	}
	defer w.Close()
	if env.Mode == "replay" {
		raws, err := emit.ReadReplay(env.Replay)
		if err != nil {
			t.Fatal(err)
		}
		for _, raw := range raws {
			var in input
			if err := json.Unmarshal(raw, &in); err != nil {
				t.Fatal(err)
			}
			put(t, w, in, "replay")
		}
		return
	}
	r := env.Rand()
	if env.Tier == "thorough" {
		// exhaustive: two chunks of one producer, all histories of length 4 over a 9-op alphabet, reopen at the end
		in0 := input{NProd: 1, Chunks: []chunkSpec{{Prod: 0, Expiry: 5, NTx: 1}, {Prod: 0, Expiry: 10, NTx: 2}}}
		alphabet := []opSpec{
			{K: "addlocal", C: 0, Cert: 0}, {K: "addlocal", C: 1, Cert: -1}, {K: "addremote", C: 0, VOK: true},
			{K: "setcert", C: 1, Cert: 1, VOK: true},
			{K: "setmin", T: 3, Saves: []int{0}}, {K: "setmin", T: 6, Saves: []int{1}}, {K: "setmin", T: 6}, {K: "setmin", T: 11, Saves: []int{0, 1}},
			{K: "reopen"},
		}
		var rec func(ops []opSpec, depth int, pend [2]bool, cert [2]bool)
		rec = func(ops []opSpec, depth int, pend [2]bool, cert [2]bool) {
			if depth == 4 {
				in := in0
				in.Ops = append(append([]opSpec{}, ops...), opSpec{K: "reopen"})
				put(t, w, in, "exhaustive")
				return
			}
			for _, o := range alphabet {
				if o.K == "addremote" && pend[o.C] && !cert[o.C] {
					continue
				}
				// only steer around the documented nil-certificate precondition; track it coarsely (over-approximate "pending")
				p2, c2 := pend, cert
				switch o.K {
				case "addlocal":
					if !p2[o.C] {
						c2[o.C] = false
					}
					p2[o.C] = true
					if o.Cert >= 0 {
						c2[o.C] = true
					}
				case "addremote":
					if !p2[o.C] {
						p2[o.C], c2[o.C] = true, false
					}
				case "setcert":
					if p2[o.C] {
						c2[o.C] = true
					}
				case "reopen":
					c2 = [2]bool{}
				case "setmin":
					// chunks may leave the pending set; if one is re-added remotely afterwards it starts without cert,
					// which the tracking above handles because addremote on a non-pending chunk resets cert. To stay on
					// the safe side treat saved/expired chunks as non-pending only when certain.
					okAll := true
					t2 := p2
					for _, s := range o.Saves {
						if !t2[s] {
							okAll = false
							break
						}
						t2[s] = false
					}
					if okAll {
						p2 = t2
						for i, cs := range in0.Chunks {
							if p2[i] && cs.Expiry < o.T {
								p2[i] = false
							}
						}
					} else {
						continue // failing SetMin is covered by the random generator
					}
				}
				rec(append(ops, o), depth+1, p2, c2)
			}
		}
		rec(nil, 0, [2]bool{}, [2]bool{})
	}
	for i := 0; i < env.N; i++ {
		in, kind := gen(r)
		put(t, w, in, kind)
	}
}
