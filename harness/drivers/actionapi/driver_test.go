// Driver for C30: the REAL jsonrpc handlers ExecuteActions / SimulateActions over a stub VM whose state is a real
// merkledb, against the REAL chain.Transaction.Execute on the same state — once with the actions' own key
// declarations and once with declarations equal to the key sets SimulateActions reported — and ExecuteActions again
// with every action declaring exactly the key set reported for it.
package actionapi

import (
	"context"
	"encoding/json"
	"fmt"
	"math/rand"
	"net/http"
	"sort"
	"strings"
	"testing"

	"github.com/ava-labs/avalanchego/database"
	"github.com/ava-labs/avalanchego/database/memdb"
	"github.com/ava-labs/avalanchego/ids"
	"github.com/ava-labs/avalanchego/trace"
	"github.com/ava-labs/avalanchego/x/merkledb"

	"github.com/ava-labs/hypersdk/api"
	"github.com/ava-labs/hypersdk/api/jsonrpc"
	"github.com/ava-labs/hypersdk/chain"
	"github.com/ava-labs/hypersdk/chain/chaintest"
	"github.com/ava-labs/hypersdk/codec"
	"github.com/ava-labs/hypersdk/fees"
	"github.com/ava-labs/hypersdk/genesis"
	internalfees "github.com/ava-labs/hypersdk/internal/fees"
	"github.com/ava-labs/hypersdk/state"
	"github.com/ava-labs/hypersdk/state/balance"
	"github.com/ava-labs/hypersdk/state/tstate"
	"github.com/ava-labs/hypersdk/verifharness/emit"
)

// ---------------------------------------------------------------------------------- input / mirror

type KV struct {
	K []byte `json:"k"`
	V []byte `json:"v"`
}

type Malform struct {
	Index int `json:"index"`
	Mode  int `json:"mode"` // 0 drop last byte, 1 unknown type id, 2 trailing byte, 3 empty byte string
}

type Input struct {
	State   []KV      `json:"state"` // sorted by key, distinct
	Actor   int       `json:"actor"`
	Sponsor int       `json:"sponsor"`
	Actions []*Script `json:"actions"`
	Malform *Malform  `json:"malform,omitempty"`
}

type SimRes struct {
	Output []byte `json:"output"`
	Keys   []Decl `json:"keys"` // sorted by key; literal keys
}

type Outs struct {
	Outputs [][]byte `json:"outputs"`
	OK      bool     `json:"ok"`
	Err     string   `json:"err,omitempty"`
}

type Mirror struct {
	Input
	Exec  Outs     `json:"exec"`
	SimOK bool     `json:"simOk"`
	SimEr string   `json:"simErr,omitempty"`
	Sim   []SimRes `json:"sim"`
	Tx    Outs     `json:"tx"`
	TxSim *Outs    `json:"txSim"`
	ExSim *Outs    `json:"execSim"` // ExecuteActions, every action declaring the key set simulation reported for it
}

// ---------------------------------------------------------------------------------- fixed environment

const maxActions = 4

var (
	testChainID = ids.ID{0xC3, 0x00}
	bh          = balance.NewPrefixBalanceHandler([]byte{0x0B})
)

func addr(i int) codec.Address {
	var a codec.Address
	a[0] = chaintest.TestAuthTypeID
	a[1] = byte(0x50 + i)
	a[32] = byte(i + 1)
	return a
}

const numAddrs = 3

func rules() *genesis.Rules {
	g := genesis.NewDefaultRules()
	g.ChainID = testChainID
	g.MaxActionsPerTx = maxActions
	return g
}

func parser() *chain.TxTypeParser {
	ap := codec.NewTypeParser[chain.Action]()
	up := codec.NewTypeParser[chain.Auth]()
	if err := ap.Register(&Script{}, UnmarshalScript); err != nil {
		panic(err)
	}
	if err := up.Register(&chaintest.TestAuth{}, chaintest.UnmarshalTestAuth); err != nil {
		panic(err)
	}
	return chain.NewTxTypeParser(ap, up)
}

// stubVM: what the two handlers need of api.VM; the state is a real merkledb exactly as vm.VM serves it
// (ReadState = stateDB.GetValues, ImmutableState = stateDB.NewView). Every other method panics (nil embedded interface).
type stubVM struct {
	api.VM
	db merkledb.MerkleDB
	p  *chain.TxTypeParser
	rf *genesis.ImmutableRuleFactory
}

func (*stubVM) Tracer() trace.Tracer                  { return trace.Noop }
func (s *stubVM) GetParser() chain.Parser             { return s.p }
func (s *stubVM) GetRuleFactory() chain.RuleFactory   { return s.rf }
func (*stubVM) BalanceHandler() chain.BalanceHandler  { return bh }
func (s *stubVM) ReadState(ctx context.Context, keys [][]byte) ([][]byte, []error) {
	return s.db.GetValues(ctx, keys)
}

func (s *stubVM) ImmutableState(ctx context.Context) (state.Immutable, error) {
	return s.db.NewView(ctx, merkledb.ViewChanges{MapOps: nil, ConsumeBytes: true})
}

func newDB(in *Input) (merkledb.MerkleDB, error) {
	ctx := context.Background()
	db, err := merkledb.New(ctx, memdb.New(), merkledb.Config{BranchFactor: merkledb.BranchFactor16, Tracer: trace.Noop})
	if err != nil {
		return nil, err
	}
	for _, kv := range in.State {
		if err := db.Put(kv.K, kv.V); err != nil {
			return nil, err
		}
	}
	// balances (not part of the observed universe): every address can pay the fee
	for i := 0; i < numAddrs; i++ {
		if err := db.Put(bh.BalanceKey(addr(i)), database.PackUInt64(1_000_000_000_000)); err != nil {
			return nil, err
		}
	}
	return db, nil
}

// ---------------------------------------------------------------------------------- running one case

func guard(f func() error) (err error) {
	defer func() {
		if r := recover(); r != nil {
			err = fmt.Errorf("panic: %v", r)
		}
	}()
	return f()
}

func roundTrip(from, to interface{}) error {
	b, err := json.Marshal(from)
	if err != nil {
		return err
	}
	return json.Unmarshal(b, to)
}

func (in *Input) actionBytes() [][]byte {
	bs := make([][]byte, len(in.Actions))
	for i, a := range in.Actions {
		bs[i] = a.Bytes()
	}
	if m := in.Malform; m != nil && m.Index >= 0 && m.Index < len(bs) {
		b := bs[m.Index]
		switch m.Mode {
		case 0:
			b = b[:len(b)-1]
		case 1:
			b = append([]byte{0x77}, b[1:]...)
		case 2:
			b = append(append([]byte{}, b...), 0)
		default:
			b = []byte{}
		}
		bs[m.Index] = b
	}
	return bs
}

// runTx executes a transaction made of the given actions with the REAL Transaction.Execute on a view whose scope
// is the REAL Transaction.StateKeys, over the same state the handlers see. An error of Execute (invalid declared
// key: StateKeys / Units fail) is reported as no outputs, no success.
func runTx(db merkledb.MerkleDB, p *chain.TxTypeParser, in *Input, actions []chain.Action) Outs {
	ctx := context.Background()
	var out Outs
	err := guard(func() error {
		auth := &chaintest.TestAuth{NumComputeUnits: 1, ActorAddress: addr(in.Actor), SponsorAddress: addr(in.Sponsor), Start: -1, End: -1}
		tx0, err := chain.NewTransaction(chain.Base{Timestamp: 1_000_000, ChainID: testChainID, MaxFee: 1_000_000_000}, actions, auth)
		if err != nil {
			return err
		}
		// the transaction a node executes is the parsed one
		tx, err := chain.UnmarshalTx(tx0.Bytes(), p)
		if err != nil {
			return err
		}
		stateKeys, err := tx.StateKeys(bh)
		if err != nil {
			return err
		}
		im, err := db.NewView(ctx, merkledb.ViewChanges{MapOps: nil, ConsumeBytes: true})
		if err != nil {
			return err
		}
		tsv := tstate.New(0).NewView(stateKeys, im, len(stateKeys))
		fm := internalfees.NewManager(nil)
		for d := fees.Dimension(0); d < fees.FeeDimensions; d++ {
			fm.SetUnitPrice(d, 1)
		}
		res, err := tx.Execute(ctx, fm, bh, rules(), tsv, 1_000)
		if err != nil {
			return err
		}
		out.Outputs, out.OK = res.Outputs, res.Success
		if !res.Success {
			out.Err = string(res.Error)
		}
		return nil
	})
	if err != nil {
		return Outs{Err: "execute error: " + err.Error()}
	}
	return out
}

func run(in *Input) emit.Case {
	ctx := context.Background()
	m := Mirror{Input: *in}
	db, err := newDB(in)
	if err != nil {
		panic(err)
	}
	defer db.Close()
	p := parser()
	vm := &stubVM{db: db, p: p, rf: &genesis.ImmutableRuleFactory{Rules: rules()}}
	srv := jsonrpc.NewJSONRPCServer(vm)
	req := (&http.Request{}).WithContext(ctx)
	actor := addr(in.Actor)
	bs := in.actionBytes()

	// (a) ExecuteActions, arguments and reply through their JSON forms
	execute := func(bs [][]byte) Outs {
		var args jsonrpc.ExecuteActionArgs
		var reply, got jsonrpc.ExecuteActionReply
		err := guard(func() error {
			if err := roundTrip(&jsonrpc.ExecuteActionArgs{Actor: actor, Actions: bs}, &args); err != nil {
				return err
			}
			if err := srv.ExecuteActions(req, &args, &reply); err != nil {
				return err
			}
			return roundTrip(&reply, &got)
		})
		if err != nil {
			return Outs{Err: "rpc error: " + err.Error()}
		}
		return Outs{Outputs: got.Outputs, OK: got.Error == "", Err: got.Error}
	}
	m.Exec = execute(bs)

	// (b) SimulateActions
	simInvalid := false
	{
		var args jsonrpc.SimulatActionsArgs
		var reply, got jsonrpc.SimulateActionsReply
		cb := make([]codec.Bytes, len(bs))
		for i := range bs {
			cb[i] = bs[i]
		}
		touchedInvalid = false
		err := guard(func() error {
			if err := roundTrip(&jsonrpc.SimulatActionsArgs{Actor: actor, Actions: cb}, &args); err != nil {
				return err
			}
			if err := srv.SimulateActions(req, &args, &reply); err != nil {
				return err
			}
			return roundTrip(&reply, &got)
		})
		simInvalid = touchedInvalid
		if err != nil {
			m.SimEr = err.Error()
		} else {
			m.SimOK = true
			for _, r := range got.ActionResults {
				sr := SimRes{Output: r.Output}
				ks := make([]string, 0, len(r.StateKeys))
				for k := range r.StateKeys {
					ks = append(ks, k)
				}
				sort.Strings(ks)
				for _, k := range ks {
					sr.Keys = append(sr.Keys, Decl{Key: KeyRef{K: []byte(k)}, Perm: uint8(r.StateKeys[k])})
				}
				m.Sim = append(m.Sim, sr)
			}
		}
	}

	// (c) the transaction with the actions' own declarations
	wf := in.Malform == nil
	if wf {
		acts := make([]chain.Action, len(in.Actions))
		for i, a := range in.Actions {
			acts[i] = a
		}
		m.Tx = runTx(db, p, in, acts)
	} else {
		// no transaction can carry the corrupted bytes: UnmarshalTx parses every action with the same parser
		parsed := true
		for _, b := range bs {
			if _, err := p.ParseAction(b); err != nil {
				parsed = false
			}
		}
		if parsed {
			m.Tx = Outs{OK: true, Err: "corrupted action bytes parse"}
		} else {
			m.Tx = Outs{Err: "unparsable"}
		}
	}

	// (d) the transaction whose actions declare exactly the simulated keys
	if m.SimOK && wf {
		acts := make([]chain.Action, len(in.Actions))
		for i, a := range in.Actions {
			var ds []Decl
			if i < len(m.Sim) {
				ds = m.Sim[i].Keys
			}
			acts[i] = &Script{Decls: ds, Ops: a.Ops}
		}
		o := runTx(db, p, in, acts)
		m.TxSim = &o
		// (e) ExecuteActions where every action declares exactly the key set simulation reported for it
		sbs := make([][]byte, len(acts))
		for i, a := range acts {
			sbs[i] = a.Bytes()
		}
		e := execute(sbs)
		m.ExSim = &e
	} else if m.SimOK {
		m.TxSim = &Outs{Err: "simulation of corrupted action bytes succeeded"}
		m.ExSim = &Outs{Err: "simulation of corrupted action bytes succeeded"}
	}

	return emit.Case{Coq: m.coq(), JSON: m, Nontrivial: m.nontrivial(), Kind: m.kind(), Sig: m.sig(simInvalid)}
}

// ---------------------------------------------------------------------------------- classification

func eqOuts(a, b [][]byte) bool {
	if len(a) != len(b) {
		return false
	}
	for i := range a {
		if string(a[i]) != string(b[i]) {
			return false
		}
	}
	return true
}

func (m *Mirror) simOutputs() [][]byte {
	os := make([][]byte, len(m.Sim))
	for i, s := range m.Sim {
		os[i] = s.Output
	}
	return os
}

func (m *Mirror) declsValid() bool {
	actor := addr(m.Actor)
	for _, a := range m.Actions {
		for _, d := range a.Decls {
			if len(d.Key.resolve(actor)) < 2 {
				return false
			}
		}
	}
	return true
}

// sig names the clause of the property the observed outputs violate (used only when spec_ok is false).
func (m *Mirror) sig(simInvalid bool) string {
	if m.Malform != nil {
		return "malformed-action-bytes-not-refused"
	}
	if m.declsValid() {
		pre := len(m.Exec.Outputs) <= len(m.Tx.Outputs) && eqOuts(m.Exec.Outputs, m.Tx.Outputs[:len(m.Exec.Outputs)])
		if !pre || (m.Exec.OK && !(m.Tx.OK && eqOuts(m.Exec.Outputs, m.Tx.Outputs))) {
			return "execute-actions-outputs-differ-from-transaction"
		}
	}
	if m.Tx.OK && !(m.SimOK && eqOuts(m.simOutputs(), m.Tx.Outputs)) {
		return "transaction-succeeds-but-simulation-differs"
	}
	if m.SimOK && !(m.TxSim != nil && m.TxSim.OK && eqOuts(m.simOutputs(), m.TxSim.Outputs)) {
		if simInvalid {
			return "simulation-succeeds-touching-undeclarable-key"
		}
		return "simulated-keys-insufficient"
	}
	if m.SimOK && !(m.ExSim != nil && m.ExSim.OK && eqOuts(m.simOutputs(), m.ExSim.Outputs)) {
		return "simulated-keys-insufficient-per-action"
	}
	return "none"
}

func (m *Mirror) kind() string {
	if m.Malform != nil {
		return "malformed"
	}
	if !m.declsValid() {
		return "decl-invalid-key"
	}
	k := fmt.Sprintf("n%d", len(m.Actions))
	switch {
	case m.Exec.OK:
		k += ":exec-ok"
	default:
		k += fmt.Sprintf(":exec-fail@%d", len(m.Exec.Outputs))
	}
	switch {
	case m.Tx.OK:
		k += ":tx-ok"
	default:
		k += ":tx-fail"
	}
	if m.SimOK {
		k += ":sim-ok"
	} else {
		k += ":sim-fail"
	}
	return k
}

// nontrivial: at least two actions, and some action touches a key an earlier action wrote or deleted
func (m *Mirror) nontrivial() bool {
	actor := addr(m.Actor)
	written := map[string]bool{}
	for i, a := range m.Actions {
		if i > 0 {
			for _, o := range a.Ops {
				if o.Kind != SFail && written[string(o.Key.resolve(actor))] {
					return true
				}
			}
		}
		for _, o := range a.Ops {
			if o.Kind == SPut || o.Kind == SDel || o.Kind == SPutIfMissing {
				written[string(o.Key.resolve(actor))] = true
			}
		}
	}
	return false
}

// ---------------------------------------------------------------------------------- Coq printing

// cb prints a byte string as a Coq term; long runs of the generator's fill pattern (b[i] = x + i%3) are printed
// as (rp n x) (Check/C30_check.v) — parsing long numeral lists dominates the Coq evaluation time otherwise.
func cb(b []byte) string {
	var parts []string
	var lit []byte
	flush := func() {
		if len(lit) > 0 {
			parts = append(parts, emit.Bytes(lit))
			lit = nil
		}
	}
	for i := 0; i < len(b); {
		j := i
		for j < len(b) && b[j] == b[i]+byte((j-i)%3) {
			j++
		}
		if j-i >= 12 {
			flush()
			parts = append(parts, fmt.Sprintf("(rp %d%%N %d%%N)", j-i, b[i]))
			i = j
			continue
		}
		lit = append(lit, b[i])
		i++
	}
	flush()
	switch len(parts) {
	case 0:
		return emit.Bytes(nil)
	case 1:
		return parts[0]
	}
	return "(" + strings.Join(parts, " ++ ") + ")"
}

func cbList(bs [][]byte) string {
	items := make([]string, len(bs))
	for i, b := range bs {
		items[i] = cb(b)
	}
	return emit.List("list N", items)
}

func coqChecks(actor codec.Address, ds []Decl) string {
	items := make([]string, len(ds))
	for i, d := range ds {
		items[i] = emit.Pair(cb(d.Key.resolve(actor)), emit.N(uint64(d.Perm)))
	}
	return emit.List("list N * N", items)
}

func coqOp(actor codec.Address, o Op) string {
	k := cb(o.Key.resolve(actor))
	switch o.Kind {
	case SGet:
		return emit.App("SGet", k)
	case SGetStop:
		return emit.App("SGetStop", k)
	case SGetFail:
		return emit.App("SGetFail", k)
	case SPutIfMissing:
		return emit.App("SPutIfMissing", k, cb(o.Val))
	case SPut:
		return emit.App("SPut", k, cb(o.Val))
	case SDel:
		return emit.App("SDel", k)
	default:
		return "SFail"
	}
}

func coqOuts(o Outs) string {
	return emit.Pair(cbList(o.Outputs), emit.Bool(o.OK))
}

func (m *Mirror) coq() string {
	actor := addr(m.Actor)
	st := make([]string, len(m.State))
	for i, kv := range m.State {
		st[i] = emit.Pair(cb(kv.K), cb(kv.V))
	}
	acts := make([]string, len(m.Actions))
	for i, a := range m.Actions {
		ops := make([]string, len(a.Ops))
		for j, o := range a.Ops {
			ops[j] = coqOp(actor, o)
		}
		acts[i] = emit.Pair(coqChecks(actor, a.Decls), emit.List("sop", ops))
	}
	sim := "(@None (list (list N * list (list N * N))))"
	if m.SimOK {
		rs := make([]string, len(m.Sim))
		for i, s := range m.Sim {
			rs[i] = emit.Pair(cb(s.Output), coqChecks(actor, s.Keys))
		}
		sim = emit.Some(emit.List("list N * list (list N * N)", rs))
	}
	txSim := "(@None (list (list N) * bool))"
	if m.TxSim != nil {
		txSim = emit.Some(coqOuts(*m.TxSim))
	}
	exSim := "(@None (list (list N) * bool))"
	if m.ExSim != nil {
		exSim = emit.Some(coqOuts(*m.ExSim))
	}
	return emit.App("mk",
		emit.Bool(m.Malform == nil),
		cb([]byte{actor[1]}),
		emit.List("list N * list N", st),
		emit.List("list (list N * N) * list sop", acts),
		coqOuts(m.Exec), sim, coqOuts(m.Tx), txSim, exSim)
}

// ---------------------------------------------------------------------------------- generators

// universe: four valid keys (chunk suffix 1, 1, 0, 2), the actor's key (suffix 1), two keys shorter than two bytes
var validKeys = [][]byte{{0xD0, 0, 1}, {0xD1, 0, 1}, {0xD2, 0, 0}, {0xD3, 0, 2}}

var invalidKeys = [][]byte{{0x41}, {}}

func maxLen(k []byte) int { // largest value length the key's chunk suffix admits
	c := int(k[len(k)-2])<<8 | int(k[len(k)-1])
	if c == 0 {
		return 0
	}
	return 64*c - 1
}

func fill(n int, x byte) []byte {
	b := make([]byte, n)
	for i := range b {
		b[i] = x + byte(i%3)
	}
	return b
}

func genKey(r *rand.Rand, allowInvalid bool) KeyRef {
	if allowInvalid && r.Intn(100) < 18 {
		return KeyRef{K: invalidKeys[r.Intn(10)/8]} // mostly the one-byte key
	}
	switch x := r.Intn(100); {
	case x < 28:
		return KeyRef{K: validKeys[0]}
	case x < 50:
		return KeyRef{K: validKeys[1]}
	case x < 64:
		return KeyRef{K: validKeys[2]}
	case x < 80:
		return KeyRef{K: validKeys[3]}
	default:
		return KeyRef{Actor: true}
	}
}

func genVal(r *rand.Rand, k []byte, clean bool) []byte {
	lens := []int{0, 1, 1, 1, 2, 2, 63, 64, 127, 128}
	fit := len(k) >= 2 && (clean || r.Intn(100) < 85)
	for try := 0; ; try++ {
		n := lens[r.Intn(len(lens))]
		if fit && n > maxLen(k) && try < 20 {
			continue
		}
		return fill(n, byte(1+r.Intn(4)))
	}
}

func genOps(r *rand.Rand, actor codec.Address, allowInvalid bool, clean bool) []Op {
	n := 1 + r.Intn(5)
	ops := make([]Op, 0, n)
	for i := 0; i < n; i++ {
		k := genKey(r, allowInvalid)
		if len(ops) > 0 && r.Intn(100) < 30 { // come back to a key of this action
			k = ops[r.Intn(len(ops))].Key
		}
		o := Op{Key: k}
		switch x := r.Intn(100); {
		case x < 22:
			o.Kind = SGet
		case x < 27:
			o.Kind = SGetStop
		case x < 34:
			o.Kind = SGetFail
		case x < 48:
			o.Kind = SPutIfMissing
		case x < 78:
			o.Kind = SPut
		case x < 98:
			o.Kind = SDel
		default:
			o.Kind = SFail
			o.Key = KeyRef{K: []byte{}}
		}
		if clean && (o.Kind == SFail || o.Kind == SGetFail) {
			o = Op{Kind: SGet, Key: k}
		}
		if o.Kind == SPut || o.Kind == SPutIfMissing {
			o.Val = genVal(r, k.resolve(actor), clean)
		}
		ops = append(ops, o)
	}
	return ops
}

// needs: the permissions the ops need, per key in first-use order (puts need Write and possibly Allocate)
func needs(ops []Op, putPerm uint8) []Decl {
	var ds []Decl
	idx := map[string]int{}
	for _, o := range ops {
		if o.Kind == SFail {
			continue
		}
		var p uint8
		switch o.Kind {
		case SGet, SGetStop, SGetFail:
			p = uint8(state.Read)
		case SDel:
			p = uint8(state.Write)
		case SPutIfMissing, SPut:
			p = putPerm
		}
		id := fmt.Sprintf("%v|%x", o.Key.Actor, o.Key.K)
		if i, ok := idx[id]; ok {
			ds[i].Perm |= p
		} else {
			idx[id] = len(ds)
			ds = append(ds, Decl{Key: o.Key, Perm: p})
		}
	}
	return ds
}

func dropInvalid(actor codec.Address, ds []Decl) []Decl {
	out := ds[:0:0]
	for _, d := range ds {
		if len(d.Key.resolve(actor)) >= 2 {
			out = append(out, d)
		}
	}
	return out
}

func genDecls(r *rand.Rand, actor codec.Address, ops []Op, clean bool) []Decl {
	all := uint8(state.All)
	ds := dropInvalid(actor, needs(ops, all))
	x := r.Intn(100)
	if clean {
		x = x % 52
		if r.Intn(100) < 12 { // still sufficient: supersets and split entries
			x = 82 + r.Intn(12)
		}
	}
	switch {
	case x < 52: // exact
	case x < 62: // write without allocate: enough only for keys that exist when the put runs
		ds = dropInvalid(actor, needs(ops, uint8(state.Write)))
	case x < 72: // one key too weak
		if len(ds) > 0 {
			i := r.Intn(len(ds))
			if r.Intn(2) == 0 {
				ds[i].Perm = uint8(state.Read)
			} else {
				ds[i].Perm = uint8(r.Intn(8))
			}
		}
	case x < 82: // one key missing (possibly declared by another action)
		if len(ds) > 0 {
			i := r.Intn(len(ds))
			ds = append(ds[:i:i], ds[i+1:]...)
		}
	case x < 88: // everything allowed, plus keys the ops never touch
		for i := range ds {
			ds[i].Perm = all
		}
		for _, k := range validKeys {
			if r.Intn(2) == 0 {
				ds = append(ds, Decl{Key: KeyRef{K: k}, Perm: uint8(r.Intn(8))})
			}
		}
	case x < 94: // one key declared by two entries whose OR is the needed permission
		if len(ds) > 0 {
			i := r.Intn(len(ds))
			p := ds[i].Perm
			ds[i].Perm = p & 3
			ds = append(ds, Decl{Key: ds[i].Key, Perm: p & 5})
		}
	default: // arbitrary permission bytes
		for i := range ds {
			ds[i].Perm = uint8(r.Intn(8))
		}
	}
	return ds
}

func genState(r *rand.Rand, actor codec.Address) []KV {
	var st []KV
	ks := append(append([][]byte{}, validKeys...), actorKey(actor))
	sort.Slice(ks, func(i, j int) bool { return string(ks[i]) < string(ks[j]) })
	p := []int{20, 50, 80}[r.Intn(3)]
	for _, k := range ks {
		if r.Intn(100) >= p {
			continue
		}
		lens := []int{0, 1, 2, 63, 127}
		n := lens[r.Intn(len(lens))]
		for n > maxLen(k) {
			n = lens[r.Intn(len(lens))]
		}
		st = append(st, KV{K: k, V: fill(n, byte(5+r.Intn(3)))})
	}
	return st
}

func gen(r *rand.Rand) *Input {
	in := &Input{Actor: r.Intn(numAddrs), Sponsor: r.Intn(numAddrs)}
	actor := addr(in.Actor)
	in.State = genState(r, actor)
	n := []int{1, 1, 2, 2, 2, 3, 3, 4, 4, 4}[r.Intn(10)]
	allowInvalid := r.Intn(100) < 10
	// clean: every action declares what its ops need, values fit, nothing fails on purpose (the run where
	// all three executions are expected to succeed); otherwise every kind of deficiency is mixed in
	clean := r.Intn(100) < 40
	for i := 0; i < n; i++ {
		ops := genOps(r, actor, allowInvalid, clean)
		in.Actions = append(in.Actions, &Script{Ops: ops})
	}
	// a failing action at a chosen position
	if !clean && r.Intn(100) < 30 {
		a := in.Actions[r.Intn(n)]
		pos := r.Intn(len(a.Ops) + 1)
		ops := append([]Op{}, a.Ops[:pos]...)
		ops = append(ops, Op{Kind: SFail, Key: KeyRef{K: []byte{}}})
		a.Ops = append(ops, a.Ops[pos:]...)
	}
	for _, a := range in.Actions {
		a.Decls = genDecls(r, actor, a.Ops, clean)
	}
	// an action that declares a key no transaction can declare
	if r.Intn(100) < 3 {
		a := in.Actions[r.Intn(n)]
		a.Decls = append(a.Decls, Decl{Key: KeyRef{K: invalidKeys[r.Intn(2)]}, Perm: uint8(1 + r.Intn(7))})
	}
	if r.Intn(100) < 4 {
		in.Malform = &Malform{Index: r.Intn(n), Mode: r.Intn(4)}
	}
	return in
}

// exhaustive (thorough tier): two single-op actions over {D0 (1 chunk), D2 (0 chunks)}, three declaration
// strengths each, four states
func exhaustive(emitCase func(*Input)) {
	keys := [][]byte{validKeys[0], validKeys[2]}
	var ops []Op
	for _, k := range keys {
		v := []byte{9}
		if maxLen(k) == 0 {
			v = []byte{}
		}
		for kind := SGet; kind <= SDel; kind++ {
			o := Op{Kind: kind, Key: KeyRef{K: k}}
			if kind == SPut || kind == SPutIfMissing {
				o.Val = v
			}
			ops = append(ops, o)
		}
	}
	ops = append(ops, Op{Kind: SFail, Key: KeyRef{K: []byte{}}})
	decl := func(o Op, mode int) []Decl {
		switch mode {
		case 0:
			return needs([]Op{o}, uint8(state.All))
		case 1:
			return needs([]Op{o}, uint8(state.Write))
		default:
			ds := needs([]Op{o}, uint8(state.All))
			for i := range ds {
				ds[i].Perm = uint8(state.Read)
			}
			return ds
		}
	}
	for st := 0; st < 4; st++ {
		var s []KV
		if st&1 != 0 {
			s = append(s, KV{K: keys[0], V: []byte{5}})
		}
		if st&2 != 0 {
			s = append(s, KV{K: keys[1], V: []byte{}})
		}
		for _, o1 := range ops {
			for _, o2 := range ops {
				for m1 := 0; m1 < 3; m1++ {
					for m2 := 0; m2 < 3; m2++ {
						emitCase(&Input{State: s, Actor: 0, Sponsor: 1, Actions: []*Script{
							{Decls: decl(o1, m1), Ops: []Op{o1}}, {Decls: decl(o2, m2), Ops: []Op{o2}}}})
					}
				}
			}
		}
	}
}

func TestDriver(t *testing.T) {
	env := emit.GetEnv()
	if env.Out == "" {
		t.Skip("VERIF_OUT not set")
	}
	w, err := emit.NewWriter(env.Out)
	if err != nil {
		t.Fatal(err)
	}
	defer w.Close()
	if env.Mode == "replay" {
		raws, err := emit.ReadReplay(env.Replay)
		if err != nil {
			t.Fatal(err)
		}
		for _, raw := range raws {
			var in Input
			if err := json.Unmarshal(raw, &in); err != nil {
				t.Fatal(err)
			}
			if len(in.Actions) == 0 {
				t.Fatalf("replay input without actions")
			}
			_ = w.Put(run(&in))
		}
		return
	}
	r := env.Rand()
	if env.Tier == "thorough" {
		exhaustive(func(in *Input) { _ = w.Put(run(in)) })
	}
	for i := 0; i < env.N; i++ {
		_ = w.Put(run(gen(r)))
	}
}
