// Package actionapi: driver for C30 (read-only action APIs agree with on-chain execution).
//
// script.go: a chain.Action whose behaviour is a small script over the state.Mutable interface (the op kinds of
// coq/Model/ActionApi.v `sop`), with an explicit key declaration that may be exact, too weak or missing. The output
// starts with a tag of the actor and echoes every read, so that every value an action sees is visible; it does
// not depend on the action id or the timestamp (ExecuteActions / SimulateActions / Transaction.Execute pass
// different ones).
package actionapi

import (
	"context"
	"errors"
	"fmt"

	"github.com/ava-labs/avalanchego/database"
	"github.com/ava-labs/avalanchego/ids"

	"github.com/ava-labs/hypersdk/chain"
	"github.com/ava-labs/hypersdk/codec"
	"github.com/ava-labs/hypersdk/state"
)

const (
	SGet          uint8 = 0 // read, echo
	SGetStop      uint8 = 1 // read, echo; if missing: stop here successfully
	SGetFail      uint8 = 2 // read, echo; if missing: fail
	SPutIfMissing uint8 = 3 // read, echo; insert only if missing
	SPut          uint8 = 4
	SDel          uint8 = 5
	SFail         uint8 = 6
	numKinds            = 7
)

const scriptTypeID uint8 = 9

var ErrScriptFail = errors.New("script action failed on purpose")

// KeyRef is a literal key, or (Actor) the key derived from the actor the action is executed for.
type KeyRef struct {
	Actor bool   `json:"actor"`
	K     []byte `json:"k"`
}

func actorKey(actor codec.Address) []byte { return []byte{0xA0, actor[1], 0, 1} }

func (k KeyRef) resolve(actor codec.Address) []byte {
	if k.Actor {
		return actorKey(actor)
	}
	return k.K
}

type Decl struct {
	Key  KeyRef `json:"key"`
	Perm uint8  `json:"perm"`
}

type Op struct {
	Kind uint8  `json:"kind"`
	Key  KeyRef `json:"key"`
	Val  []byte `json:"val"`
}

type Script struct {
	Decls []Decl `json:"decls"`
	Ops   []Op   `json:"ops"`
}

var _ chain.Action = (*Script)(nil)

// touchedInvalid is set when a script accesses (GetValue / Remove / Insert) a key shorter than two bytes. The
// driver is single threaded; it resets the flag before a call and reads it afterwards (only to give a failing
// case a specific signature).
var touchedInvalid bool

func (*Script) GetTypeID() uint8 { return scriptTypeID }

func putBytes(b []byte, x []byte) []byte {
	if len(x) > 255 {
		panic("script field too long")
	}
	b = append(b, byte(len(x)))
	return append(b, x...)
}

func putKey(b []byte, k KeyRef) []byte {
	if k.Actor {
		return append(b, 1)
	}
	b = append(b, 0)
	return putBytes(b, k.K)
}

func (a *Script) Bytes() []byte {
	b := []byte{scriptTypeID, byte(len(a.Decls))}
	for _, d := range a.Decls {
		b = putKey(b, d.Key)
		b = append(b, d.Perm)
	}
	b = append(b, byte(len(a.Ops)))
	for _, o := range a.Ops {
		b = append(b, o.Kind)
		b = putKey(b, o.Key)
		b = putBytes(b, o.Val)
	}
	return b
}

type reader struct {
	b   []byte
	err error
}

func (r *reader) byte() byte {
	if r.err != nil {
		return 0
	}
	if len(r.b) == 0 {
		r.err = errors.New("script: truncated")
		return 0
	}
	x := r.b[0]
	r.b = r.b[1:]
	return x
}

func (r *reader) bytes() []byte {
	n := int(r.byte())
	if r.err != nil {
		return nil
	}
	if len(r.b) < n {
		r.err = errors.New("script: truncated")
		return nil
	}
	x := append([]byte{}, r.b[:n]...)
	r.b = r.b[n:]
	return x
}

func (r *reader) key() KeyRef {
	switch r.byte() {
	case 0:
		return KeyRef{K: r.bytes()}
	case 1:
		return KeyRef{Actor: true}
	default:
		if r.err == nil {
			r.err = errors.New("script: bad key tag")
		}
		return KeyRef{}
	}
}

// UnmarshalScript is strict: wrong type id, truncation, unknown tags/kinds and trailing bytes are errors.
func UnmarshalScript(b []byte) (chain.Action, error) {
	r := &reader{b: b}
	if t := r.byte(); r.err == nil && t != scriptTypeID {
		return nil, fmt.Errorf("script: unexpected type id %d", t)
	}
	a := &Script{}
	nd := int(r.byte())
	for i := 0; i < nd && r.err == nil; i++ {
		k := r.key()
		p := r.byte()
		a.Decls = append(a.Decls, Decl{Key: k, Perm: p})
	}
	no := int(r.byte())
	for i := 0; i < no && r.err == nil; i++ {
		kind := r.byte()
		if r.err == nil && kind >= numKinds {
			r.err = errors.New("script: bad op kind")
		}
		k := r.key()
		v := r.bytes()
		a.Ops = append(a.Ops, Op{Kind: kind, Key: k, Val: v})
	}
	if r.err == nil && len(r.b) != 0 {
		r.err = errors.New("script: trailing bytes")
	}
	if r.err != nil {
		return nil, r.err
	}
	return a, nil
}

func (*Script) ComputeUnits(chain.Rules) uint64 { return 1 }

func (*Script) ValidRange(chain.Rules) (int64, int64) { return -1, -1 }

// StateKeys: the declaration; several entries of one key are OR-ed (as Keys.Add does) but no validity check is
// made here (Transaction.StateKeys makes it).
func (a *Script) StateKeys(actor codec.Address, _ ids.ID) state.Keys {
	ks := make(state.Keys, len(a.Decls))
	for _, d := range a.Decls {
		ks[string(d.Key.resolve(actor))] |= state.Permissions(d.Perm)
	}
	return ks
}

func echo(out []byte, v []byte, found bool) []byte {
	if !found {
		return append(out, 0)
	}
	out = append(out, 1, byte(len(v)))
	return append(out, v...)
}

func (a *Script) Execute(ctx context.Context, _ chain.Rules, mu state.Mutable, _ int64, actor codec.Address, _ ids.ID) ([]byte, error) {
	out := []byte{actor[1]}
	for _, op := range a.Ops {
		key := op.Key.resolve(actor)
		if op.Kind != SFail && len(key) < 2 {
			touchedInvalid = true
		}
		switch op.Kind {
		case SGet, SGetStop, SGetFail, SPutIfMissing:
			v, err := mu.GetValue(ctx, key)
			found := true
			switch {
			case errors.Is(err, database.ErrNotFound):
				found = false
			case err != nil:
				return nil, err
			}
			if !found && op.Kind == SGetFail {
				return nil, ErrScriptFail
			}
			out = echo(out, v, found)
			if !found && op.Kind == SGetStop {
				return out, nil
			}
			if !found && op.Kind == SPutIfMissing {
				if err := mu.Insert(ctx, key, op.Val); err != nil {
					return nil, err
				}
			}
		case SPut:
			if err := mu.Insert(ctx, key, op.Val); err != nil {
				return nil, err
			}
		case SDel:
			if err := mu.Remove(ctx, key); err != nil {
				return nil, err
			}
		default:
			return nil, ErrScriptFail
		}
	}
	return out, nil
}
