package actionapi

import (
	"context"
	"testing"

	"github.com/ava-labs/avalanchego/database/memdb"
	"github.com/ava-labs/avalanchego/trace"
	"github.com/ava-labs/avalanchego/x/merkledb"
)

func TestProbe(t *testing.T) {
	ctx := context.Background()
	base := memdb.New()
	db, err := merkledb.New(ctx, base, merkledb.Config{BranchFactor: merkledb.BranchFactor16, Tracer: trace.Noop})
	if err != nil {
		t.Fatal(err)
	}
	_ = db.Put([]byte{1, 0, 0}, []byte{})
	_ = db.Put([]byte{4, 0, 0}, nil)
	_ = db.Put([]byte{2, 0, 1}, []byte{7})
	show := func(db merkledb.MerkleDB) {
	vs, errs := db.GetValues(ctx, [][]byte{{1, 0, 0}, {4, 0, 0}, {2, 0, 1}, {3, 0, 1}})
	for i := range vs {
		t.Logf("%d: v=%v nil=%v err=%v", i, vs[i], vs[i] == nil, errs[i])
	}
	v, _ := db.NewView(ctx, merkledb.ViewChanges{MapOps: nil, ConsumeBytes: true})
	x, err := v.GetValue(ctx, []byte{1, 0, 0})
	t.Logf("view: v=%v nil=%v err=%v", x, x == nil, err)
	x, err = v.GetValue(ctx, []byte{4, 0, 0})
	t.Logf("view: v=%v nil=%v err=%v", x, x == nil, err)
	}
	show(db)
	db.Close()
	db, err = merkledb.New(ctx, base, merkledb.Config{BranchFactor: merkledb.BranchFactor16, Tracer: trace.Noop})
	if err != nil {
		t.Fatal(err)
	}
	t.Log("reopened")
	show(db)
}
