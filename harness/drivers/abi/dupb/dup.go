// Package dupb: see package dupa.
package dupb

type Dup struct {
	A uint64 `serialize:"true" json:"a"`
	C []byte `serialize:"true" json:"c"`
	D uint16 `serialize:"true" json:"d"`
}

func (Dup) GetTypeID() uint8 { return 16 }
