// Driver for C29: ABI-driven dynamic encoding (abi.NewABI + abi/dynamic Marshal/Unmarshal) against the
// native linear-codec encoding of the same Go types (Action.Bytes() / parsers for the MorpheusVM types).
package abi

import (
	"sync"
	"encoding/json"
	"fmt"
	"math"
	"math/rand"
	"reflect"
	"strconv"
	"strings"
	"testing"
	"unicode/utf8"

	"github.com/ava-labs/avalanchego/utils/wrappers"

	"github.com/ava-labs/hypersdk/abi"
	"github.com/ava-labs/hypersdk/abi/dynamic"
	"github.com/ava-labs/hypersdk/chain/chaintest"
	"github.com/ava-labs/hypersdk/codec"
	"github.com/ava-labs/hypersdk/consts"
	"github.com/ava-labs/hypersdk/examples/morpheusvm/actions"
	"github.com/ava-labs/hypersdk/verifharness/drivers/abi/dupa"
	"github.com/ava-labs/hypersdk/verifharness/drivers/abi/dupb"
	"github.com/ava-labs/hypersdk/verifharness/emit"
)

// ---------------------------------------------------------------- the Go types under test

type Inner struct {
	Field1 uint8 `serialize:"true" json:"field1"`
}

type Pair struct {
	A int16  `serialize:"true" json:"a"`
	B string `serialize:"true" json:"b"`
}

type Emb struct {
	E1 uint32 `serialize:"true" json:"e1"`
	E2 []byte `serialize:"true" json:"e_2"`
}

type Emb2 struct {
	Emb `serialize:"true"`
	Q   int8 `serialize:"true" json:"q"`
}

type Numbers struct {
	U8  uint8  `serialize:"true" json:"uint8"`
	U16 uint16 `serialize:"true" json:"uint16"`
	U32 uint32 `serialize:"true" json:"uint32"`
	U64 uint64 `serialize:"true" json:"uint64"`
	I8  int8   `serialize:"true" json:"int8"`
	I16 int16  `serialize:"true" json:"int16"`
	I32 int32  `serialize:"true" json:"int32"`
	I64 int64  `serialize:"true" json:"int64"`
}

type StrBytes struct {
	S  string   `serialize:"true" json:"s"`
	B  []byte   `serialize:"true" json:"b"`
	BB [][]byte `serialize:"true" json:"bb"`
	SS []string `serialize:"true" json:"ss"`
}

type Arrays struct {
	A2    [2]uint8        `serialize:"true" json:"a2"`
	A32   [32]uint8       `serialize:"true" json:"a32"`
	AA    [2][3]uint16    `serialize:"true" json:"aa"`
	SA    [][2]int8       `serialize:"true" json:"sa"`
	AS    [3][]uint16     `serialize:"true" json:"as"`
	Addr  codec.Address   `serialize:"true" json:"addr"`
	Addrs []codec.Address `serialize:"true" json:"addrs"`
	A0    [0]uint32       `serialize:"true" json:"a0"`
}

type Nested struct {
	In  Inner   `serialize:"true" json:"inner"`
	Ins []Inner `serialize:"true" json:"innerArr"`
	P   Pair    `serialize:"true" json:"p"`
	PA  [2]Pair `serialize:"true" json:"pa"`
	PS  []Pair  `serialize:"true" json:"ps"`
}

type WithEmb struct {
	X      uint16 `serialize:"true" json:"x"`
	Emb    `serialize:"true"`
	Y      int64 `serialize:"true" json:"y"`
	skip   uint8
	Hidden uint32 `json:"-"`
	Z      Emb2   `serialize:"true" json:"z"`
}

type WithEmb2 struct {
	Emb2 `serialize:"true"`
	W    []Emb2 `serialize:"true" json:"w"`
}

type Deep struct {
	L [][]Pair   `serialize:"true" json:"l"`
	M [][][]byte `serialize:"true" json:"m"`
	N []Nested   `serialize:"true" json:"n"`
	O [2][]Inner `serialize:"true" json:"o"`
}

type NoTag struct {
	Field1 uint16 `serialize:"true"`
	Other  string `serialize:"true"`
	In     Inner  `serialize:"true"`
}

type Empty struct{}

type WithEmpty struct {
	E  Empty      `serialize:"true" json:"e"`
	ES []Empty    `serialize:"true" json:"es"`
	ZA [][0]uint8 `serialize:"true" json:"za"`
	K  uint8      `serialize:"true" json:"k"`
}

type Signed struct {
	I8s  []int8   `serialize:"true" json:"i8s"`
	I16s []int16  `serialize:"true" json:"i16s"`
	I32s []int32  `serialize:"true" json:"i32s"`
	I64s []int64  `serialize:"true" json:"i64s"`
	U64s []uint64 `serialize:"true" json:"u64s"`
}

// describe-only: json tag options
type TagOpts struct {
	A uint64 `serialize:"true" json:"a,omitempty"`
	B string `json:"b" serialize:"true"`
	C []byte `serialize:"false" json:"c"`
	D Inner  `serialize:"true" json:"d,omitempty"`
}

// wrapper making any struct value a codec.Typed for abi.NewABI (describeTypedStruct uses reflect.TypeOf(arg)):
// we need the argument's dynamic type to be the struct itself, so each type gets its own GetTypeID.
func (Inner) GetTypeID() uint8     { return 1 }
func (Pair) GetTypeID() uint8      { return 2 }
func (Numbers) GetTypeID() uint8   { return 3 }
func (StrBytes) GetTypeID() uint8  { return 4 }
func (Arrays) GetTypeID() uint8    { return 5 }
func (Nested) GetTypeID() uint8    { return 6 }
func (WithEmb) GetTypeID() uint8   { return 7 }
func (WithEmb2) GetTypeID() uint8  { return 8 }
func (Deep) GetTypeID() uint8      { return 9 }
func (NoTag) GetTypeID() uint8     { return 10 }
func (WithEmpty) GetTypeID() uint8 { return 11 }
func (Signed) GetTypeID() uint8    { return 12 }
func (TagOpts) GetTypeID() uint8   { return 14 }

// index into allTypes
const (
	tTransfer = iota
	tTransferResult
	tInner
	tPair
	tNumbers
	tStrBytes
	tArrays
	tNested
	tWithEmb
	tWithEmb2
	tDeep
	tNoTag
	tWithEmpty
	tSigned
	tDupA // two different structs with the same name "Dup" (packages dupa / dupb), never in one ABI
	tDupB
	tTagOpts // describe only
	nTypes
)

type entry struct {
	name string
	zero codec.Typed // pointer to zero value
	id   uint8
}

var allTypes = []entry{
	{"Transfer", &actions.Transfer{}, 0},
	{"TransferResult", &actions.TransferResult{}, 0},
	{"Inner", &Inner{}, 1},
	{"Pair", &Pair{}, 2},
	{"Numbers", &Numbers{}, 3},
	{"StrBytes", &StrBytes{}, 4},
	{"Arrays", &Arrays{}, 5},
	{"Nested", &Nested{}, 6},
	{"WithEmb", &WithEmb{}, 7},
	{"WithEmb2", &WithEmb2{}, 8},
	{"Deep", &Deep{}, 9},
	{"NoTag", &NoTag{}, 10},
	{"WithEmpty", &WithEmpty{}, 11},
	{"Signed", &Signed{}, 12},
	{"Dup", &dupa.Dup{}, 15},
	{"Dup", &dupb.Dup{}, 16},
	{"TagOpts", &TagOpts{}, 14},
}

func (e entry) rtype() reflect.Type { return reflect.TypeOf(e.zero).Elem() }

// ---------------------------------------------------------------- Go type / value -> Coq terms

var addrType = reflect.TypeOf(codec.Address{})

func primOf(k reflect.Kind) (string, bool) {
	switch k {
	case reflect.Uint8:
		return "U8", true
	case reflect.Uint16:
		return "U16", true
	case reflect.Uint32:
		return "U32", true
	case reflect.Uint64:
		return "U64", true
	case reflect.Int8:
		return "I8", true
	case reflect.Int16:
		return "I16", true
	case reflect.Int32:
		return "I32", true
	case reflect.Int64:
		return "I64", true
	case reflect.Bool:
		return "PBool", true
	case reflect.String:
		return "PString", true
	}
	return "", false
}

func tyTerm(t reflect.Type) string {
	if t == addrType {
		return "TAddress"
	}
	if p, ok := primOf(t.Kind()); ok {
		if t.PkgPath() != "" {
			return emit.App("TNamed", emit.Str(t.Name()), p)
		}
		return emit.App("TPrim", p)
	}
	switch t.Kind() {
	case reflect.Slice:
		if t.Name() != "" {
			panic("named slice type outside the universe: " + t.String())
		}
		return emit.App("TSlice", tyTerm(t.Elem()))
	case reflect.Array:
		if t.Name() != "" {
			panic("named array type outside the universe: " + t.String())
		}
		return emit.App("TArray", emit.N(uint64(t.Len())), tyTerm(t.Elem()))
	case reflect.Struct:
		fs := "FNil"
		for i := t.NumField() - 1; i >= 0; i-- {
			f := t.Field(i)
			jn := "None"
			if tag := f.Tag.Get("json"); tag != "" {
				jn = emit.Some(emit.Str(strings.Split(tag, ",")[0]))
			}
			fi := emit.App("FI", emit.Str(f.Name), jn, emit.Bool(f.Tag.Get("serialize") == "true"), emit.Bool(f.Anonymous))
			fs = emit.App("FCons", fi, tyTerm(f.Type), fs)
		}
		return emit.App("TStruct", emit.Str(t.Name()), fs)
	}
	panic("type outside the universe: " + t.String())
}

func valTerm(v reflect.Value) string {
	t := v.Type()
	switch t.Kind() {
	case reflect.Uint8, reflect.Uint16, reflect.Uint32, reflect.Uint64:
		return emit.App("VNum", emit.ZBig(strconv.FormatUint(v.Uint(), 10)))
	case reflect.Int8, reflect.Int16, reflect.Int32, reflect.Int64:
		return emit.App("VNum", emit.ZBig(strconv.FormatInt(v.Int(), 10)))
	case reflect.Bool:
		return emit.App("VBool", emit.Bool(v.Bool()))
	case reflect.String:
		return emit.App("VStr", emit.Bytes([]byte(v.String())))
	case reflect.Slice, reflect.Array:
		if t.Elem().Kind() == reflect.Uint8 && v.Len() > 0 {
			// vb (Check/C29_check.v) = VList of VNum, printed compactly
			b := make([]byte, v.Len())
			for i := range b {
				b[i] = byte(v.Index(i).Uint())
			}
			return emit.App("vb", emit.Bytes(b))
		}
		items := make([]string, v.Len())
		for i := range items {
			items[i] = valTerm(v.Index(i))
		}
		return emit.App("VList", emit.List("value", items))
	case reflect.Struct:
		var items []string
		for i := 0; i < t.NumField(); i++ {
			if t.Field(i).Tag.Get("serialize") != "true" {
				continue
			}
			items = append(items, valTerm(v.Field(i)))
		}
		return emit.App("VList", emit.List("value", items))
	}
	panic("value outside the universe: " + t.String())
}

func optBytes(b []byte, ok bool) string {
	if !ok {
		return "(@None (list N))"
	}
	return emit.Some(emit.Bytes(b))
}

func optVal(v *reflect.Value) string {
	if v == nil {
		return "(@None value)"
	}
	return emit.Some(valTerm(*v))
}

// ---------------------------------------------------------------- value generator (boundary biased)

var strPool = []string{"", "a", "hi", "memo", "é世", "\"q\\<&>", "0x00", " sp ace", "\x00\x01z"}

func genUint(r *rand.Rand, bits uint) uint64 {
	max := uint64(math.MaxUint64)
	if bits < 64 {
		max = (uint64(1) << bits) - 1
	}
	switch r.Intn(8) {
	case 0:
		return 0
	case 1:
		return max
	case 2:
		return max - 1
	case 3:
		return 1
	case 4:
		return (max >> 1) + 1 // sign bit only
	case 5:
		return max >> 1
	case 6:
		return uint64(r.Intn(300)) & max
	default:
		return r.Uint64() & max
	}
}

func genLen(r *rand.Rand, depth int) int {
	switch r.Intn(6) {
	case 0, 1:
		return 0
	case 2:
		return 1
	case 3:
		return 2
	default:
		if depth > 1 {
			return r.Intn(3)
		}
		return r.Intn(5)
	}
}

func genInto(r *rand.Rand, v reflect.Value, depth int, big bool) {
	t := v.Type()
	switch t.Kind() {
	case reflect.Uint8, reflect.Uint16, reflect.Uint32, reflect.Uint64:
		v.SetUint(genUint(r, uint(t.Bits())))
	case reflect.Int8, reflect.Int16, reflect.Int32, reflect.Int64:
		u := genUint(r, uint(t.Bits()))
		// reinterpret as two's complement of the right width
		shift := 64 - uint(t.Bits())
		v.SetInt(int64(u<<shift) >> shift)
	case reflect.Bool:
		v.SetBool(r.Intn(2) == 0)
	case reflect.String:
		s := strPool[r.Intn(len(strPool))]
		if r.Intn(4) == 0 {
			s += strPool[r.Intn(len(strPool))]
		}
		if big && r.Intn(6) == 0 {
			s = strings.Repeat("x", 255+r.Intn(3))
		}
		v.SetString(s)
	case reflect.Slice:
		n := genLen(r, depth)
		if t.Elem().Kind() == reflect.Uint8 && big && r.Intn(3) == 0 {
			n = []int{255, 256, 257, 300}[r.Intn(4)]
		}
		// dense: a long slice of SMALL numbers in a wide integer type -- the packed form (2..8 bytes per element) is
		// longer than the compact JSON text ("7," = 2 bytes), the opposite of every other shape generated here
		dense := false
		switch t.Elem().Kind() {
		case reflect.Uint16, reflect.Uint32, reflect.Uint64, reflect.Int16, reflect.Int32, reflect.Int64:
			if r.Intn(6) == 0 {
				dense = true
				n = 24 + r.Intn(70)
			}
		}
		s := reflect.MakeSlice(t, n, n) // non-nil even when empty
		for i := 0; i < n; i++ {
			if dense {
				if s.Index(i).CanUint() {
					s.Index(i).SetUint(uint64(r.Intn(10)))
				} else {
					s.Index(i).SetInt(int64(r.Intn(10)))
				}
				continue
			}
			genInto(r, s.Index(i), depth+1, false)
		}
		v.Set(s)
	case reflect.Array:
		if t == addrType && r.Intn(3) == 0 {
			switch r.Intn(3) {
			case 0: // zero address
			case 1:
				for i := 0; i < t.Len(); i++ {
					v.Index(i).SetUint(255)
				}
			default:
				v.Index(0).SetUint(uint64(r.Intn(4)))
				v.Index(t.Len() - 1).SetUint(1)
			}
			return
		}
		for i := 0; i < t.Len(); i++ {
			genInto(r, v.Index(i), depth+1, false)
		}
	case reflect.Struct:
		for i := 0; i < t.NumField(); i++ {
			if t.Field(i).Tag.Get("serialize") != "true" {
				continue
			}
			genInto(r, v.Field(i), depth, big)
		}
	default:
		panic("gen: " + t.String())
	}
}

// ---------------------------------------------------------------- running the real code

type rootSpec struct {
	Types []int `json:"types"` // indices into allTypes registered as actions
	Outs  []int `json:"outs"`  // registered as outputs; nil: the same as Types
	AsOut bool  `json:"asOut"` // the type under test is Outs[K] (decoded with UnmarshalOutput), else Types[K]
}

func (rs rootSpec) outs() []int {
	if rs.Outs == nil {
		return rs.Types
	}
	return rs.Outs
}

func (rs rootSpec) under(k int) int {
	if rs.AsOut {
		return rs.outs()[k]
	}
	return rs.Types[k]
}

func rootsTerm(idx []int) (string, []codec.Typed) {
	var typed []codec.Typed
	items := make([]string, len(idx))
	for i, ti := range idx {
		e := allTypes[ti]
		typed = append(typed, e.zero)
		items[i] = emit.Pair(emit.N(uint64(e.id)), tyTerm(e.rtype()))
	}
	return emit.List("N * ty", items), typed
}

// build runs abi.NewABI and returns the Coq terms of the two registries
func (rs rootSpec) build() (abi.ABI, string, string, error) {
	at, acts := rootsTerm(rs.Types)
	ot, outs := rootsTerm(rs.outs())
	a, err := abi.NewABI(acts, outs)
	if err != nil {
		return a, at, ot, err
	}
	for i, ti := range rs.Types {
		a.Actions[i].ID = allTypes[ti].id
	}
	for i, ti := range rs.outs() {
		a.Outputs[i].ID = allTypes[ti].id
	}
	return a, at, ot, nil
}

// Coq term of the ctx record, sharing the registry when outputs mirror actions
func (rs rootSpec) ctx(at, ot string, k int) (string, string) {
	if rs.Outs == nil {
		return "let r := " + at + " in ", emit.App("Ctx", "r", "r", emit.Bool(rs.AsOut), emit.Nat(k))
	}
	return "", emit.App("Ctx", at, ot, emit.Bool(rs.AsOut), emit.Nat(k))
}

func safely(f func()) (err error) {
	defer func() {
		if p := recover(); p != nil {
			err = fmt.Errorf("panic: %v", p)
		}
	}()
	f()
	return nil
}

// native encoding: typeID ++ LinearCodec; for the MorpheusVM types the type's own Bytes()
func nativeBytes(ti int, ptr interface{}) ([]byte, bool) {
	var out []byte
	var merr error
	err := safely(func() {
		switch x := ptr.(type) {
		case *actions.Transfer:
			out = x.Bytes()
		case *actions.TransferResult:
			out = x.Bytes()
		default:
			p := &wrappers.Packer{Bytes: make([]byte, 0, 64), MaxSize: consts.NetworkSizeLimit}
			p.PackByte(allTypes[ti].id)
			merr = codec.LinearCodec.MarshalInto(ptr, p)
			out = p.Bytes
		}
	})
	if err != nil || merr != nil {
		return nil, false
	}
	return out, true
}

// native parse of typeID ++ body: (pointer to value, bytes of body consumed)
func nativeParse(ti int, data []byte) (reflect.Value, int, bool) {
	ptr := reflect.New(allTypes[ti].rtype())
	if len(data) == 0 {
		return ptr, 0, false
	}
	p := &wrappers.Packer{Bytes: data[1:]}
	if err := codec.LinearCodec.UnmarshalFrom(p, ptr.Interface()); err != nil {
		return ptr, 0, false
	}
	return ptr, p.Offset, true
}

func jsonEqual(a, b string) bool {
	var x, y interface{}
	da := json.NewDecoder(strings.NewReader(a))
	da.UseNumber()
	db := json.NewDecoder(strings.NewReader(b))
	db.UseNumber()
	if da.Decode(&x) != nil || db.Decode(&y) != nil {
		return false
	}
	return reflect.DeepEqual(x, y)
}

// JSON produced by dynamic.Unmarshal read back into the native Go type
func readBack(ti int, doc string) *reflect.Value {
	ptr := reflect.New(allTypes[ti].rtype())
	if err := json.Unmarshal([]byte(doc), ptr.Interface()); err != nil {
		return nil
	}
	normalize(ptr.Elem())
	e := ptr.Elem()
	return &e
}

// nil slices -> empty (JSON null and [] are the same value for the codec)
func normalize(v reflect.Value) {
	switch v.Kind() {
	case reflect.Slice:
		if v.IsNil() {
			v.Set(reflect.MakeSlice(v.Type(), 0, 0))
		}
		for i := 0; i < v.Len(); i++ {
			normalize(v.Index(i))
		}
	case reflect.Array:
		for i := 0; i < v.Len(); i++ {
			normalize(v.Index(i))
		}
	case reflect.Struct:
		for i := 0; i < v.NumField(); i++ {
			if v.Field(i).CanSet() {
				normalize(v.Field(i))
			}
		}
	}
}

type marshalIn struct {
	Roots rootSpec        `json:"roots"`
	K     int             `json:"k"`
	Value json.RawMessage `json:"value"` // JSON of the native value
}

func runMarshal(in marshalIn) emit.Case {
	ti := in.Roots.under(in.K)
	e := allTypes[ti]
	a, at, ot, err := in.Roots.build()
	if err != nil {
		panic(err)
	}
	unmarshal := dynamic.UnmarshalAction
	if in.Roots.AsOut {
		unmarshal = dynamic.UnmarshalOutput
	}
	ptr := reflect.New(e.rtype())
	if err := json.Unmarshal(in.Value, ptr.Interface()); err != nil {
		panic(err)
	}
	normalize(ptr.Elem())
	doc, _ := json.Marshal(ptr.Interface())

	var dyn []byte
	var derr error
	if in.Roots.AsOut {
		derr = fmt.Errorf("dynamic.Marshal serves actions only")
	} else if perr := safely(func() { dyn, derr = dynamic.Marshal(a, e.name, string(doc)) }); perr != nil {
		derr = perr
	}
	nb, nok := nativeBytes(ti, ptr.Interface())

	var unm *reflect.Value
	jsoneq := false
	if nok {
		var s string
		var uerr error
		if perr := safely(func() { s, uerr = unmarshal(a, nb) }); perr != nil {
			uerr = perr
		}
		if uerr == nil {
			unm = readBack(ti, s)
			// the value's JSON = JSON of the natively parsed value
			if np, _, ok := nativeParse(ti, nb); ok {
				nd, _ := json.Marshal(np.Interface())
				jsoneq = jsonEqual(string(nd), s) && jsonEqual(string(doc), s)
			}
			// registered both ways: the output path must agree with the action path
			if in.Roots.Outs == nil {
				if so, err := dynamic.UnmarshalOutput(a, nb); err != nil || so != s {
					jsoneq = false
				}
			}
		}
	}
	// share the repeated sub-terms (the Coq parser is the bottleneck of the check)
	vT := valTerm(ptr.Elem())
	dynT, unmT := optBytes(dyn, derr == nil), optVal(unm)
	if nok && derr == nil && string(dyn) == string(nb) {
		dynT = "(Some nb)"
	}
	if unm != nil && valTerm(*unm) == vT {
		unmT = "(Some v)"
	}
	nbT := "(@nil N)"
	if nok {
		nbT = emit.Bytes(nb)
	}
	nativeT := "(@None (list N))"
	if nok {
		nativeT = "(Some nb)"
	}
	pre, ctx := in.Roots.ctx(at, ot, in.K)
	coq := "(" + pre + "let v := " + vT + " in let nb := " + nbT + " in " +
		emit.App("CMarshal", ctx, "v", dynT, nativeT, unmT, emit.Bool(jsoneq)) + ")"
	kind := "marshal:" + e.name
	sig := "abi-marshal-differs-from-native:" + e.name
	if nok && (in.Roots.AsOut || derr == nil && string(dyn) == string(nb)) {
		sig = "abi-unmarshal-json-differs:" + e.name
	}
	in.Value = doc
	return emit.Case{Coq: coq, JSON: map[string]interface{}{"op": "marshal", "in": in}, Nontrivial: nok && len(nb) > 1, Kind: kind, Sig: sig}
}

type decodeIn struct {
	Roots rootSpec `json:"roots"`
	K     int      `json:"k"`
	Data  []byte   `json:"data"`
}

// strings that are not valid UTF-8 do not survive encoding/json (replaced by U+FFFD): such byte strings have
// no JSON document, the property does not speak about them
func hasBadString(v reflect.Value) bool {
	switch v.Kind() {
	case reflect.String:
		return !utf8.ValidString(v.String())
	case reflect.Slice, reflect.Array:
		for i := 0; i < v.Len(); i++ {
			if hasBadString(v.Index(i)) {
				return true
			}
		}
	case reflect.Struct:
		for i := 0; i < v.NumField(); i++ {
			if hasBadString(v.Field(i)) {
				return true
			}
		}
	}
	return false
}

func runDecode(in decodeIn) (emit.Case, bool) {
	ti := in.Roots.under(in.K)
	e := allTypes[ti]
	a, at, ot, err := in.Roots.build()
	if err != nil {
		panic(err)
	}
	unmarshal := dynamic.UnmarshalAction
	if in.Roots.AsOut {
		unmarshal = dynamic.UnmarshalOutput
	}
	native := "(@None (value * N))"
	np, off, nok := nativeParse(ti, in.Data)
	if nok && hasBadString(np.Elem()) {
		return emit.Case{}, false
	}
	vT := "(VNum 0%Z)"
	if nok {
		normalize(np.Elem())
		vT = valTerm(np.Elem())
		native = emit.Some(emit.Pair("v", emit.N(uint64(off))))
	}
	var dynv *reflect.Value
	var s string
	var uerr error
	if perr := safely(func() { s, uerr = unmarshal(a, in.Data) }); perr != nil {
		uerr = perr
	}
	if uerr == nil && len(in.Data) > 0 {
		dynv = readBack(ti, s)
	}
	dynT := optVal(dynv)
	if dynv != nil && valTerm(*dynv) == vT {
		dynT = "(Some v)"
	}
	pre, ctx := in.Roots.ctx(at, ot, in.K)
	coq := "(" + pre + "let v := " + vT + " in " + emit.App("CDecode", ctx, emit.Bytes(in.Data), native, dynT) + ")"
	kind := "decode-fail:" + e.name
	if nok {
		kind = "decode-ok:" + e.name
	}
	return emit.Case{Coq: coq, JSON: map[string]interface{}{"op": "decode", "in": in}, Nontrivial: len(in.Data) > 1, Kind: kind,
		Sig: "abi-decode-differs-from-native:" + e.name}, true
}

func runDescribe(rs rootSpec) emit.Case {
	a, at, ot, err := rs.build()
	if err != nil {
		panic(err)
	}
	items := make([]string, len(a.Types))
	for i, t := range a.Types {
		fl := make([]string, len(t.Fields))
		for j, f := range t.Fields {
			fl[j] = emit.Pair(emit.Str(f.Name), emit.Str(f.Type))
		}
		items[i] = emit.Pair(emit.Str(t.Name), emit.List("string * string", fl))
	}
	coq := emit.App("CDescribe", at, ot, emit.List("abitype", items))
	return emit.Case{Coq: coq, JSON: map[string]interface{}{"op": "describe", "in": rs}, Nontrivial: len(a.Types) > 1, Kind: "describe",
		Sig: "abi-describe"}
}

// chaintest.TestAction has bool / named scalar fields: outside what getReflectType supports, so only the
// native codec (model enc/dec) is tied here.
type nativeIn struct {
	Action json.RawMessage `json:"action"`
}

func runNative(in nativeIn) emit.Case {
	ta := &chaintest.TestAction{}
	if err := json.Unmarshal(in.Action, ta); err != nil {
		panic(err)
	}
	normalize(reflect.ValueOf(ta).Elem())
	var nb []byte
	nok := safely(func() { nb = ta.Bytes() }) == nil
	var back *reflect.Value
	if nok {
		if act, err := chaintest.UnmarshalTestAction(nb); err == nil {
			v := reflect.ValueOf(act).Elem()
			normalize(v)
			back = &v
		}
	}
	vT := valTerm(reflect.ValueOf(ta).Elem())
	backT := optVal(back)
	if back != nil && valTerm(*back) == vT {
		backT = "(Some v)"
	}
	coq := "(let v := " + vT + " in " + emit.App("CNative", tyTerm(reflect.TypeOf(*ta)), emit.N(uint64(ta.GetTypeID())), "v",
		optBytes(nb, nok), backT) + ")"
	doc, _ := json.Marshal(ta)
	return emit.Case{Coq: coq, JSON: map[string]interface{}{"op": "native", "in": nativeIn{doc}}, Nontrivial: nok, Kind: "native:TestAction",
		Sig: "native-codec-roundtrip:TestAction"}
}

// ---------------------------------------------------------------- generators

func genRoots(r *rand.Rand, must int) (rootSpec, int) {
	switch r.Intn(8) {
	case 0: // the reference VM registry (Transfer action, TransferResult output, both id 0), plus the type under test
		rs := rootSpec{Types: []int{tTransfer}, Outs: []int{tTransferResult}}
		switch must {
		case tTransfer:
			return rs, 0
		case tTransferResult:
			rs.AsOut = true
			return rs, 0
		}
		if r.Intn(2) == 0 {
			rs.Types = append(rs.Types, must)
			return rs, 1
		}
		rs.Outs = append(rs.Outs, must)
		rs.AsOut = true
		return rs, 1
	case 1: // several roots sharing nested types, in random order
		n := 2 + r.Intn(3)
		rs := rootSpec{}
		seen := map[int]bool{}
		pos := r.Intn(n)
		for i := 0; i < n; i++ {
			c := 2 + r.Intn(nTypes-3)
			if i == pos {
				c = must
			}
			if seen[c] || (c == must && i != pos) {
				continue
			}
			if (c == tDupA && (seen[tDupB] || must == tDupB)) || (c == tDupB && (seen[tDupA] || must == tDupA)) {
				continue // the two same-named types never share an ABI
			}
			seen[c] = true
			rs.Types = append(rs.Types, c)
		}
		for i, c := range rs.Types {
			if c == must {
				return rs, i
			}
		}
		rs.Types = append(rs.Types, must)
		return rs, len(rs.Types) - 1
	default:
		return rootSpec{Types: []int{must}}, 0
	}
}

func genMarshal(r *rand.Rand) marshalIn {
	var ti int
	switch r.Intn(4) {
	case 0:
		ti = tTransfer
	case 1:
		ti = []int{tTransfer, tTransferResult}[r.Intn(2)]
	default:
		ti = r.Intn(nTypes - 1) // TagOpts is describe-only
	}
	rs, k := genRoots(r, ti)
	ptr := reflect.New(allTypes[ti].rtype())
	genInto(r, ptr.Elem(), 0, r.Intn(6) == 0)
	if ti == tWithEmpty && r.Intn(3) != 0 {
		// mostly encodable values (a non-empty slice of zero-length elements is rejected by the codec)
		w := ptr.Interface().(*WithEmpty)
		w.ES, w.ZA = []Empty{}, [][0]uint8{}
	}
	if ti == tTransfer {
		t := ptr.Interface().(*actions.Transfer)
		switch r.Intn(24) {
		case 0, 1, 2:
			t.Memo = []byte{}
		case 3:
			t.Memo = make([]byte, actions.MaxMemoSize-r.Intn(2))
			r.Read(t.Memo)
		case 4:
			t.Memo = make([]byte, actions.MaxMemoSize+1+r.Intn(700))
			r.Read(t.Memo)
		case 5, 6, 7:
			t.Value = math.MaxUint64
		}
	}
	doc, err := json.Marshal(ptr.Interface())
	if err != nil {
		panic(err)
	}
	return marshalIn{Roots: rs, K: k, Value: doc}
}

func genDecode(r *rand.Rand) decodeIn {
	m := genMarshal(r)
	ti := m.Roots.under(m.K)
	ptr := reflect.New(allTypes[ti].rtype())
	_ = json.Unmarshal(m.Value, ptr.Interface())
	normalize(ptr.Elem())
	data, ok := nativeBytes(ti, ptr.Interface())
	if !ok {
		data = []byte{allTypes[ti].id}
	}
	data = append([]byte{}, data...)
	switch r.Intn(6) {
	case 0: // truncate
		if len(data) > 1 {
			data = data[:1+r.Intn(len(data)-1)]
		}
	case 1: // trailing bytes
		for i := r.Intn(3) + 1; i > 0; i-- {
			data = append(data, byte(r.Intn(3)))
		}
	case 2, 3: // corrupt one byte (length prefixes are mostly small numbers: favour small values)
		if len(data) > 1 {
			i := 1 + r.Intn(len(data)-1)
			data[i] = []byte{0, 1, 2, 0x7f, 0x80, 0xff, byte(r.Intn(256))}[r.Intn(7)]
		}
	case 4: // random short body
		n := r.Intn(12)
		data = data[:1]
		for i := 0; i < n; i++ {
			data = append(data, byte(r.Intn(4)))
		}
	default: // valid
	}
	return decodeIn{Roots: m.Roots, K: m.K, Data: data}
}

func genDescribe(r *rand.Rand) rootSpec {
	if r.Intn(3) == 0 {
		return rootSpec{Types: []int{r.Intn(nTypes)}}
	}
	n := 1 + r.Intn(5)
	rs := rootSpec{}
	seen := map[int]bool{}
	for i := 0; i < n; i++ {
		c := r.Intn(nTypes)
		if seen[c] {
			continue
		}
		seen[c] = true
		rs.Types = append(rs.Types, c)
	}
	return rs
}

func genNative(r *rand.Rand) nativeIn {
	ta := &chaintest.TestAction{}
	genInto(r, reflect.ValueOf(ta).Elem(), 0, false)
	doc, _ := json.Marshal(ta)
	return nativeIn{doc}
}

func replayOne(raw json.RawMessage) emit.Case {
	var hdr struct {
		Op string          `json:"op"`
		In json.RawMessage `json:"in"`
	}
	if err := json.Unmarshal(raw, &hdr); err != nil {
		panic(err)
	}
	switch hdr.Op {
	case "marshal":
		var in marshalIn
		if err := json.Unmarshal(hdr.In, &in); err != nil {
			panic(err)
		}
		return runMarshal(in)
	case "decode":
		var in decodeIn
		if err := json.Unmarshal(hdr.In, &in); err != nil {
			panic(err)
		}
		c, ok := runDecode(in)
		if !ok {
			return runDescribe(in.Roots)
		}
		return c
	case "describe":
		var in rootSpec
		if err := json.Unmarshal(hdr.In, &in); err != nil {
			panic(err)
		}
		return runDescribe(in)
	case "native":
		var in nativeIn
		if err := json.Unmarshal(hdr.In, &in); err != nil {
			panic(err)
		}
		return runNative(in)
	}
	panic("unknown op " + hdr.Op)
}

func TestDriver(t *testing.T) {
	env := emit.GetEnv()
	if env.Out == "" {
		t.Skip("VERIF_OUT not set")
	}
	w, err := emit.NewWriter(env.Out)
	if err != nil {
		t.Fatal(err)
	}
	defer w.Close()
	if env.Mode == "replay" {
		raws, err := emit.ReadReplay(env.Replay)
		if err != nil {
			t.Fatal(err)
		}
		for _, raw := range raws {
			_ = w.Put(replayOne(raw))
		}
		return
	}
	r := env.Rand()
	// every type alone and the reference registry: description
	for ti := 0; ti < nTypes; ti++ {
		_ = w.Put(runDescribe(rootSpec{Types: []int{ti}}))
	}
	_ = w.Put(runDescribe(rootSpec{Types: []int{tTransfer}, Outs: []int{tTransferResult}}))
	// every generated case is run twice: once alone (the result that is emitted), and once more while seven other
	// goroutines run other cases (ABI calls are made from concurrent API handlers). A concurrent run whose observable
	// outcome differs from the solitary one is emitted as an additional case, so it is compared with the model too.
	type job struct {
		run func() (emit.Case, bool)
		seq emit.Case
		ok  bool
	}
	var jobs []*job
	for i := 0; i < env.N; i++ {
		var j *job
		switch x := r.Intn(20); {
		case x < 1:
			in := genDescribe(r)
			j = &job{run: func() (emit.Case, bool) { return runDescribe(in), true }}
		case x < 12:
			in := genMarshal(r)
			j = &job{run: func() (emit.Case, bool) { return runMarshal(in), true }}
		case x < 18:
			in := genDecode(r)
			j = &job{run: func() (emit.Case, bool) { return runDecode(in) }}
		default:
			in := genNative(r)
			j = &job{run: func() (emit.Case, bool) { return runNative(in), true }}
		}
		j.seq, j.ok = j.run()
		if j.ok {
			_ = w.Put(j.seq)
		}
		jobs = append(jobs, j)
	}
	const workers = 8
	conc := make([]*emit.Case, len(jobs))
	var wg sync.WaitGroup
	for g := 0; g < workers; g++ {
		wg.Add(1)
		go func(g int) {
			defer wg.Done()
			for i := g; i < len(jobs); i += workers {
				j := jobs[i]
				var c emit.Case
				var ok bool
				if perr := safely(func() { c, ok = j.run() }); perr != nil {
					// the driver's own code does not panic when run alone (it just did): report the solitary case with
					// a marker that makes the comparison fail
					c, ok = j.seq, j.ok
					c.Coq = "(CPanicked " + emit.Str(perr.Error()) + ")"
				}
				if ok != j.ok || (ok && c.Coq != j.seq.Coq) {
					c.Kind = "concurrent:" + c.Kind
					c.Sig = "abi-call-differs-under-concurrency"
					conc[i] = &c
				}
			}
		}(g)
	}
	wg.Wait()
	for _, c := range conc {
		if c != nil {
			_ = w.Put(*c)
		}
	}
}
