// Package dupa: a struct type named Dup; package dupb defines a DIFFERENT struct with the same name. The two never
// appear in one ABI; they exercise "the same type name under two ABIs in one process".
package dupa

type Dup struct {
	A uint8  `serialize:"true" json:"a"`
	B string `serialize:"true" json:"b"`
}

func (Dup) GetTypeID() uint8 { return 15 }
