// Driver for C26: runs the real internal/workers pools (parallel and serial) under many schedules and
// records the event trace (submission calls, task begin/end, job results, Stop).
//
// A case = (pool shape, jobs, observed trace). Check/C26_check.v only contains conditions that hold for
// every trace of the unchanged code. Events are appended under one mutex: the order of the slice is a
// total order consistent with every happens-before edge of the program.
package workers

import (
	"encoding/json"
	"errors"
	"fmt"
	"math/rand"
	"runtime"
	"strings"
	"sync"
	"testing"
	"time"

	"github.com/ava-labs/hypersdk/internal/workers"
	"github.com/ava-labs/hypersdk/verifharness/emit"
)

type taskIn struct {
	Fail  bool `json:"fail"`
	Sleep int  `json:"sleep"` // microseconds
	Yield int  `json:"yield"`
	Gate  bool `json:"gate"` // wait (bounded) until the pool's shutdown flag is visible
}

type jobIn struct {
	Tasks    []taskIn `json:"tasks"`
	Extra    int      `json:"extra"`    // taskBacklog = len(tasks) + extra (+1 when both are 0)
	Callback bool     `json:"callback"` // pass a function to Done
}

type input struct {
	Serial    bool    `json:"serial"`
	Workers   int     `json:"workers"`
	MaxJobs   int     `json:"max_jobs"`
	Procs     int     `json:"procs"`
	Jobs      []jobIn `json:"jobs"`
	Pipelined bool    `json:"pipelined"` // submit every job, then wait for all (otherwise wait after each Done)
	StopAt    int     `json:"stop_at"`   // index in the op list before which Stop is launched; <0 or too large: at the end
	Gen       string  `json:"gen"`
}

type evJ struct {
	T  string `json:"t"` // newcall new go donecall beg end callback wait stopcall stopret seenshut
	J  int    `json:"j"`
	I  int    `json:"i,omitempty"`
	OK bool   `json:"ok,omitempty"`
	R  int    `json:"r,omitempty"`
}

type mirror struct {
	input
	Events []evJ  `json:"events"`
	Hang   bool   `json:"hang"`
	Note   string `json:"note,omitempty"`
}

type taskErr struct{ j, i int }

func (e *taskErr) Error() string { return fmt.Sprintf("task %d of job %d failed", e.i, e.j) }

func resCode(j int, err error) int {
	if err == nil {
		return 0
	}
	if errors.Is(err, workers.ErrShutdown) {
		return 1
	}
	var te *taskErr
	if errors.As(err, &te) {
		if te.j == j {
			return 2 + te.i
		}
		return 900000 + te.j // an error of another job leaked into this one
	}
	return 999999
}

type recorder struct {
	mu  sync.Mutex
	evs []evJ
}

func (r *recorder) put(e evJ) {
	r.mu.Lock()
	r.evs = append(r.evs, e)
	r.mu.Unlock()
}

// putIfShutdown reads the shutdown flag and logs the observation in one critical section.
func (r *recorder) putIfShutdown(w workers.Workers) bool {
	r.mu.Lock()
	defer r.mu.Unlock()
	if workers.VerifShutdownRequested(w) {
		r.evs = append(r.evs, evJ{T: "seenshut"})
		return true
	}
	return false
}

func (r *recorder) snapshot() []evJ {
	r.mu.Lock()
	defer r.mu.Unlock()
	return append([]evJ{}, r.evs...)
}

type op struct {
	kind string // new go done wait
	j, i int
}

func opsOf(in input) []op {
	var ops []op
	for j, jb := range in.Jobs {
		ops = append(ops, op{"new", j, 0})
		for i := range jb.Tasks {
			ops = append(ops, op{"go", j, i})
		}
		ops = append(ops, op{"done", j, 0})
		if !in.Pipelined {
			ops = append(ops, op{"wait", j, 0})
		}
	}
	if in.Pipelined {
		for j := range in.Jobs {
			ops = append(ops, op{"wait", j, 0})
		}
	}
	return ops
}

const (
	caseTimeout = 15 * time.Second
	gateTimeout = 200 * time.Millisecond
)

func runCase(in input) mirror {
	old := runtime.GOMAXPROCS(in.Procs)
	defer runtime.GOMAXPROCS(old)
	rec := &recorder{}
	done := make(chan string, 1)
	go func() {
		note := ""
		defer func() {
			if p := recover(); p != nil {
				note = fmt.Sprintf("panic: %v", p)
			}
			done <- note
		}()
		var w workers.Workers
		if in.Serial {
			w = workers.NewSerial()
		} else {
			w = workers.NewParallel(in.Workers, in.MaxJobs)
		}
		ops := opsOf(in)
		stopAt := in.StopAt
		if stopAt < 0 || stopAt > len(ops) {
			stopAt = len(ops)
		}
		stopDone := make(chan struct{})
		stopped := false
		launchStop := func() {
			stopped = true
			go func() {
				rec.put(evJ{T: "stopcall"})
				w.Stop()
				rec.put(evJ{T: "stopret"})
				close(stopDone)
			}()
			if in.Serial {
				<-stopDone
				return
			}
			// NewJob must not race with the first regions of Stop (it could send on a closed channel):
			// continue only once the shutdown flag is visible.
			deadline := time.Now().Add(3 * time.Second)
			for !rec.putIfShutdown(w) {
				if time.Now().After(deadline) {
					panic("shutdown flag not set 3s after Stop was called")
				}
				runtime.Gosched()
			}
		}
		handles := make([]workers.Job, len(in.Jobs))
		for k, o := range ops {
			if k == stopAt {
				launchStop()
			}
			j := o.j
			switch o.kind {
			case "new":
				jb := in.Jobs[j]
				backlog := len(jb.Tasks) + jb.Extra
				if backlog == 0 {
					backlog = 1
				}
				rec.put(evJ{T: "newcall", J: j})
				h, err := w.NewJob(backlog)
				if err != nil {
					h = nil
				}
				handles[j] = h
				rec.put(evJ{T: "new", J: j, OK: err == nil})
			case "go":
				if handles[j] == nil {
					continue
				}
				tk := in.Jobs[j].Tasks[o.i]
				jj, ii := j, o.i
				rec.put(evJ{T: "go", J: jj, I: ii})
				handles[j].Go(func() error {
					rec.put(evJ{T: "beg", J: jj, I: ii})
					for y := 0; y < tk.Yield; y++ {
						runtime.Gosched()
					}
					if tk.Sleep > 0 {
						time.Sleep(time.Duration(tk.Sleep) * time.Microsecond)
					}
					if tk.Gate {
						deadline := time.Now().Add(gateTimeout)
						for !rec.putIfShutdown(w) && time.Now().Before(deadline) {
							runtime.Gosched()
						}
					}
					if tk.Fail {
						rec.put(evJ{T: "end", J: jj, I: ii, OK: false})
						return &taskErr{jj, ii}
					}
					rec.put(evJ{T: "end", J: jj, I: ii, OK: true})
					return nil
				})
			case "done":
				if handles[j] == nil {
					continue
				}
				rec.put(evJ{T: "donecall", J: j})
				if in.Jobs[j].Callback {
					jj := j
					handles[j].Done(func() { rec.put(evJ{T: "callback", J: jj}) })
				} else {
					handles[j].Done(nil)
				}
			case "wait":
				if handles[j] == nil {
					continue
				}
				err := handles[j].Wait()
				rec.put(evJ{T: "wait", J: j, R: resCode(j, err)})
			}
		}
		if !stopped {
			launchStop()
		}
		<-stopDone
		// give Done callbacks of completed jobs the chance to be logged (they run in their own goroutine)
		for y := 0; y < 20; y++ {
			runtime.Gosched()
		}
	}()
	m := mirror{input: in}
	select {
	case note := <-done:
		if note != "" {
			m.Hang = true
			m.Note = note
		}
	case <-time.After(caseTimeout):
		m.Hang = true
		m.Note = "hang: a job's Wait or Stop did not return"
	}
	m.Events = rec.snapshot()
	return m
}

// ---- Coq printing ------------------------------------------------------------------------------------

func coqEv(e evJ) string {
	switch e.T {
	case "newcall":
		return emit.App("ENewCall", fmt.Sprint(e.J))
	case "new":
		return emit.App("ENew", fmt.Sprint(e.J), emit.Bool(e.OK))
	case "go":
		return emit.App("EGo", fmt.Sprint(e.J), fmt.Sprint(e.I))
	case "donecall":
		return emit.App("EDoneCall", fmt.Sprint(e.J))
	case "beg":
		return emit.App("EBeg", fmt.Sprint(e.J), fmt.Sprint(e.I))
	case "end":
		return emit.App("EEnd", fmt.Sprint(e.J), fmt.Sprint(e.I), emit.Bool(e.OK))
	case "callback":
		return emit.App("ECallback", fmt.Sprint(e.J))
	case "wait":
		return emit.App("EWait", fmt.Sprint(e.J), emit.N(uint64(e.R)))
	case "stopcall":
		return "EStopCall"
	case "stopret":
		return "EStopRet"
	default:
		return "ESeenShut"
	}
}

// signature classifies a failing trace (only used to tell findings apart).
func signature(m mirror) string {
	if m.Hang {
		if strings.HasPrefix(m.Note, "panic") {
			return "workers-panic"
		}
		sawFail := false
		for _, e := range m.Events {
			if e.T == "end" && !e.OK {
				sawFail = true
			}
		}
		if sawFail {
			return "hang-after-task-failure"
		}
		return "hang"
	}
	type key struct{ j, i int }
	nbeg := map[key]int{}
	res := map[int]int{}
	for _, e := range m.Events {
		switch e.T {
		case "beg":
			nbeg[key{e.J, e.I}]++
		case "wait":
			res[e.J] = e.R
		}
	}
	for _, c := range nbeg {
		if c > 1 {
			return "task-ran-twice"
		}
	}
	for j, jb := range m.Jobs {
		r, ok := res[j]
		if !ok || r == 1 {
			continue
		}
		anyFail, failedRan, allRan := false, false, true
		for i, t := range jb.Tasks {
			ran := nbeg[key{j, i}] > 0
			anyFail = anyFail || t.Fail
			failedRan = failedRan || (ran && t.Fail)
			allRan = allRan && ran
		}
		if !anyFail && !allRan {
			return "task-not-run"
		}
		if (r == 0) == failedRan {
			return "job-error-does-not-match-failures"
		}
	}
	return "job-order-or-shutdown-rule"
}

func toCase(m mirror, kind string) emit.Case {
	jobs := make([]string, len(m.Jobs))
	ntasks := 0
	for j, jb := range m.Jobs {
		fl := make([]string, len(jb.Tasks))
		for i, t := range jb.Tasks {
			fl[i] = emit.Bool(t.Fail)
		}
		ntasks += len(jb.Tasks)
		jobs[j] = emit.List("bool", fl)
	}
	evs := make([]string, len(m.Events))
	for i, e := range m.Events {
		evs[i] = coqEv(e)
	}
	coq := emit.App("mk", fmt.Sprint(m.Workers), emit.Bool(m.Serial), emit.List("list bool", jobs),
		emit.List("ev", evs), emit.Bool(m.Hang), fmt.Sprint(m.MaxJobs))
	return emit.Case{Coq: coq, JSON: m, Nontrivial: ntasks >= 2, Kind: kind, Sig: signature(m)}
}

// stress: [subs] goroutines submit one-task jobs to ONE pool as fast as they can (NewJob / Go / Done / Wait), about
// half of the tasks fail; each submitter compares the verdict of its own job with the outcome of its own task.  The
// window between "a failing task returned" and "its error is recorded for the job" is a few instructions wide and
// contention on NewJob widens it; a lost or misattributed error shows up as a job whose verdict disagrees with its
// single task.  The case handed to the checker is that job's own trace (or, when every verdict agreed, the trace of
// one failing job), renumbered as job 0 of a one-job history on the same number of workers.
func stress(r *rand.Rand, subs, perSub int) emit.Case {
	const nWorkers = 4
	w := workers.NewParallel(nWorkers, subs+1)
	type obs struct {
		fail bool
		res  int
	}
	bad := make(chan obs, subs)
	seeds := make([]int64, subs)
	for i := range seeds {
		seeds[i] = r.Int63()
	}
	var wg sync.WaitGroup
	for sidx := 0; sidx < subs; sidx++ {
		wg.Add(1)
		go func(seed int64) {
			defer wg.Done()
			rr := rand.New(rand.NewSource(seed))
			for k := 0; k < perSub; k++ {
				fail := rr.Intn(2) == 0
				job, err := w.NewJob(1)
				if err != nil {
					return
				}
				job.Go(func() error {
					if fail {
						return &taskErr{0, 0}
					}
					return nil
				})
				job.Done(nil)
				res := resCode(0, job.Wait())
				if (res != 0) != fail {
					select {
					case bad <- obs{fail, res}:
					default:
					}
					return
				}
			}
		}(seeds[sidx])
	}
	wg.Wait()
	w.Stop()
	o := obs{fail: true, res: resCode(0, &taskErr{0, 0})}
	kind := "stress/all-verdicts-agree"
	select {
	case o = <-bad:
		kind = "stress/verdict-disagrees-with-own-task"
	default:
	}
	m := mirror{input: input{Workers: nWorkers, MaxJobs: subs + 1, Procs: 0, StopAt: -1, Gen: kind,
		Jobs: []jobIn{{Tasks: []taskIn{{Fail: o.fail}}}}}}
	m.Events = []evJ{{T: "newcall", J: 0}, {T: "new", J: 0, OK: true}, {T: "go", J: 0, I: 0}, {T: "donecall", J: 0},
		{T: "beg", J: 0, I: 0}, {T: "end", J: 0, I: 0, OK: !o.fail}, {T: "wait", J: 0, R: o.res}}
	return toCase(m, kind)
}

// ---- generators ----------------------------------------------------------------------------------------

func genInput(r *rand.Rand) input {
	in := input{StopAt: -1}
	in.Workers = 1 + r.Intn(16)
	switch r.Intn(5) {
	case 0:
		in.Workers = 1
	case 1:
		in.Workers = 2
	}
	in.Procs = []int{1, 2, 4, 8, 16}[r.Intn(5)]
	in.MaxJobs = []int{1, 2, 3, 10, 100}[r.Intn(5)]
	in.Pipelined = r.Intn(3) != 0
	nj := 1 + r.Intn(6)
	kind := "parallel"
	if r.Intn(8) == 0 {
		in.Serial = true
		in.Workers = 1
		kind = "serial"
	}
	failMode := r.Intn(4) // 0,1: none; 2: one failing task somewhere; 3: several
	mode := r.Intn(3)
	for j := 0; j < nj; j++ {
		var jb jobIn
		nt := r.Intn(21)
		switch r.Intn(4) {
		case 0:
			nt = r.Intn(3)
		case 1:
			nt = r.Intn(7)
		}
		for i := 0; i < nt; i++ {
			var t taskIn
			switch mode {
			case 0:
				t.Sleep = r.Intn(120)
			case 1:
				t.Yield = r.Intn(4)
			default:
				if r.Intn(3) == 0 {
					t.Sleep = 50 + r.Intn(300)
				}
			}
			if failMode == 3 && r.Intn(4) == 0 {
				t.Fail = true
			}
			jb.Tasks = append(jb.Tasks, t)
		}
		jb.Extra = []int{0, 0, 1, 5}[r.Intn(4)]
		jb.Callback = r.Intn(3) == 0
		in.Jobs = append(in.Jobs, jb)
	}
	if failMode == 2 {
		j := r.Intn(nj)
		if n := len(in.Jobs[j].Tasks); n > 0 {
			// boundary positions first
			pos := []int{0, n - 1, r.Intn(n), r.Intn(n)}[r.Intn(4)]
			in.Jobs[j].Tasks[pos].Fail = true
		}
	}
	if failMode >= 2 {
		kind += "+fail"
	}
	nops := len(opsOf(in))
	switch r.Intn(5) {
	case 0, 1: // stop somewhere in the middle
		in.StopAt = r.Intn(nops + 1)
		kind += "+stop-mid"
	case 2: // pending jobs: an early task holds its job open until the shutdown flag is visible
		if !in.Serial {
			in.Pipelined = true
			j := r.Intn(nj)
			if len(in.Jobs[j].Tasks) == 0 {
				in.Jobs[j].Tasks = append(in.Jobs[j].Tasks, taskIn{})
			}
			in.Jobs[j].Tasks[r.Intn(len(in.Jobs[j].Tasks))].Gate = true
			// Stop after all submissions of some later point
			ops := opsOf(in)
			first := 0
			for k, o := range ops {
				if o.kind == "done" && o.j == j {
					first = k + 1
				}
			}
			in.StopAt = first + r.Intn(len(ops)-first+1)
			if in.MaxJobs < nj {
				in.MaxJobs = nj
			}
			kind += "+stop-pending"
		}
	}
	in.Gen = kind
	return in
}

func TestDriver(t *testing.T) {
	env := emit.GetEnv()
	if env.Out == "" {
		t.Skip("VERIF_OUT not set")
	}
	w, err := emit.NewWriter(env.Out)
	if err != nil {
		t.Fatal(err)
	}
	defer w.Close()
	if env.Mode == "replay" {
		raws, err := emit.ReadReplay(env.Replay)
		if err != nil {
			t.Fatal(err)
		}
		for _, raw := range raws {
			in := input{StopAt: -1, Procs: 4, Workers: 1, MaxJobs: 10}
			if err := json.Unmarshal(raw, &in); err != nil {
				t.Fatal(err)
			}
			if in.Workers < 1 {
				in.Workers = 1
			}
			if in.MaxJobs < 1 {
				in.MaxJobs = 1
			}
			hangs := 0
			for i := 0; i < 3 && hangs == 0; i++ {
				m := runCase(in)
				if m.Hang {
					hangs++
				}
				_ = w.Put(toCase(m, "replay:"+in.Gen))
			}
		}
		return
	}
	r := env.Rand()
	for i := 0; i < 3; i++ {
		_ = w.Put(stress(r, 8, 4000))
	}
	hangs := 0
	for w.Count() < env.N && hangs < 2 {
		in := genInput(r)
		m := runCase(in)
		if m.Hang {
			hangs++ // a hung pool leaks its goroutines: report it and stop generating
		}
		_ = w.Put(toCase(m, in.Gen))
	}
}
