// Driver for the chain-index part of C18: the real chainindex.ChainIndex over a database that "crashes" (the
// goroutine is stopped by a panic the driver recovers) immediately BEFORE its k-th durable write operation (a direct
// Put/Delete or a batch Write) during UpdateLastAccepted of block j.  Everything written before that point stays in
// the underlying memdb.  The index is then reopened on the same database, as a restarted node does, and observed:
// it must open, name a last accepted block that is j-1 or j, hold that block with consistent height<->id mappings,
// and accept the next block.
package indexcrash

import (
	"context"
	"encoding/binary"
	"encoding/json"
	"fmt"
	"testing"

	"github.com/ava-labs/avalanchego/database"
	"github.com/ava-labs/avalanchego/database/memdb"
	"github.com/ava-labs/avalanchego/ids"
	"github.com/ava-labs/avalanchego/utils/logging"
	"github.com/prometheus/client_golang/prometheus"

	"github.com/ava-labs/hypersdk/chainindex"
	"github.com/ava-labs/hypersdk/verifharness/emit"
)

type tblock struct{ H, ID uint64 }

func mkID(i uint64) ids.ID {
	var x ids.ID
	for k := range x {
		x[k] = 0x5a
	}
	binary.BigEndian.PutUint64(x[24:], i)
	return x
}
func (b *tblock) GetID() ids.ID     { return mkID(b.ID) }
func (b *tblock) GetHeight() uint64 { return b.H }
func (b *tblock) GetBytes() []byte {
	out := make([]byte, 16)
	binary.BigEndian.PutUint64(out[0:], b.H)
	binary.BigEndian.PutUint64(out[8:], b.ID)
	return out
}

type parser struct{}

func (parser) ParseBlock(_ context.Context, b []byte) (*tblock, error) {
	if len(b) != 16 {
		return nil, fmt.Errorf("bad block length %d", len(b))
	}
	return &tblock{binary.BigEndian.Uint64(b[0:]), binary.BigEndian.Uint64(b[8:])}, nil
}

type crashSignal struct{}

// crashDB counts durable write operations and stops the caller before the chosen one.
type crashDB struct {
	*memdb.Database
	n, at int // at <= 0: never
}

func (c *crashDB) tick() {
	c.n++
	if c.at > 0 && c.n == c.at {
		panic(crashSignal{})
	}
}
func (c *crashDB) Put(k, v []byte) error { c.tick(); return c.Database.Put(k, v) }
func (c *crashDB) Delete(k []byte) error { c.tick(); return c.Database.Delete(k) }
func (c *crashDB) NewBatch() database.Batch {
	return &crashBatch{Batch: c.Database.NewBatch(), db: c}
}

type crashBatch struct {
	database.Batch
	db *crashDB
}

func (b *crashBatch) Write() error { b.db.tick(); return b.Batch.Write() }
func (b *crashBatch) Inner() database.Batch { return b.Batch }

type input struct {
	W uint64 `json:"w"` // accepted block window
	J uint64 `json:"j"` // the block whose index update is interrupted (heights 0..j-1 are accepted first)
	K int    `json:"k"` // crash before the k-th durable write of that update
}

type mirror struct {
	input
	Crashed    bool   `json:"crashed"`
	ReopenOK   bool   `json:"reopen_ok"`
	Last       uint64 `json:"last"`
	LastKnown  bool   `json:"last_known"`
	Found      bool   `json:"found"`
	Consistent bool   `json:"consistent"`
	NextOK     bool   `json:"next_ok"`
	Note       string `json:"note,omitempty"`
}

func blk(h uint64) *tblock { return &tblock{H: h, ID: 1000 + h} }

func run(in input) emit.Case {
	ctx := context.Background()
	m := mirror{input: in}
	base := memdb.New()
	cdb := &crashDB{Database: base}
	open := func(db database.Database) (*chainindex.ChainIndex[*tblock], error) {
		return chainindex.New[*tblock](ctx, logging.NoLog{}, prometheus.NewRegistry(),
			chainindex.Config{AcceptedBlockWindow: in.W, BlockCompactionFrequency: 1 << 30}, parser{}, db)
	}
	ci, err := open(cdb)
	if err != nil {
		panic(err)
	}
	for h := uint64(0); h < in.J; h++ {
		if err := ci.UpdateLastAccepted(ctx, blk(h)); err != nil {
			panic(err)
		}
	}
	cdb.n, cdb.at = 0, in.K
	func() {
		defer func() {
			if r := recover(); r != nil {
				if _, ok := r.(crashSignal); !ok {
					panic(r)
				}
				m.Crashed = true
			}
		}()
		if err := ci.UpdateLastAccepted(ctx, blk(in.J)); err != nil {
			m.Note = "UpdateLastAccepted: " + err.Error()
		}
	}()
	// restart on what is on "disk"
	ci2, err := open(base)
	m.ReopenOK = err == nil
	if err != nil {
		m.Note = "reopen: " + err.Error()
	} else {
		last, err := ci2.GetLastAcceptedHeight(ctx)
		m.LastKnown = err == nil
		m.Last = last
		if err == nil {
			b, e1 := ci2.GetBlockByHeight(ctx, last)
			id, e2 := ci2.GetBlockIDAtHeight(ctx, last)
			m.Found = e1 == nil && b != nil && b.H == last
			if m.Found && e2 == nil {
				h2, e3 := ci2.GetBlockIDHeight(ctx, id)
				b2, e4 := ci2.GetBlock(ctx, id)
				m.Consistent = e3 == nil && h2 == last && e4 == nil && b2 != nil && b2.H == last && id == b.GetID()
			}
			m.NextOK = ci2.UpdateLastAccepted(ctx, blk(last+1)) == nil
		}
	}
	coq := emit.App("mkI", emit.N(in.W), emit.N(in.J), emit.N(uint64(in.K)), emit.Bool(m.Crashed), emit.Bool(m.ReopenOK),
		emit.Bool(m.LastKnown), emit.N(m.Last), emit.Bool(m.Found), emit.Bool(m.Consistent), emit.Bool(m.NextOK))
	sig := "index-update-not-atomic:last-accepted-block-missing-after-crash"
	if !m.Crashed {
		sig = "index-update-wrong-without-crash"
	}
	kind := "crash-before-write"
	if !m.Crashed {
		kind = "no-crash-point-reached"
	}
	return emit.Case{Coq: coq, JSON: m, Nontrivial: m.Crashed || in.K == 0, Kind: kind, Sig: sig}
}

// ---- historical saves (C19): SaveHistorical(h) interrupted before its k-th durable write ----------------------------

type hinput struct {
	W uint64 `json:"w"`
	J uint64 `json:"j"` // last accepted height reached by "state sync": blocks 0 and J are accepted, nothing between
	H uint64 `json:"h"` // the historical block being saved (0 < h < J)
	K int    `json:"k"`
	Hist bool `json:"hist"`
}

type hmirror struct {
	hinput
	Crashed  bool   `json:"crashed"`
	ReopenOK bool   `json:"reopen_ok"`
	ByHeight bool   `json:"by_height"`
	IDAt     bool   `json:"id_at_height"`
	HeightOf bool   `json:"height_of_id"`
	ByID     bool   `json:"by_id"`
	Agree    bool   `json:"agree"`
	Note     string `json:"note,omitempty"`
}

func runHist(in hinput) emit.Case {
	ctx := context.Background()
	m := hmirror{hinput: in}
	base := memdb.New()
	cdb := &crashDB{Database: base}
	open := func(db database.Database) (*chainindex.ChainIndex[*tblock], error) {
		return chainindex.New[*tblock](ctx, logging.NoLog{}, prometheus.NewRegistry(),
			chainindex.Config{AcceptedBlockWindow: in.W, BlockCompactionFrequency: 1 << 30}, parser{}, db)
	}
	ci, err := open(cdb)
	if err != nil {
		panic(err)
	}
	for _, h := range []uint64{0, in.J} {
		if err := ci.UpdateLastAccepted(ctx, blk(h)); err != nil {
			panic(err)
		}
	}
	cdb.n, cdb.at = 0, in.K
	func() {
		defer func() {
			if r := recover(); r != nil {
				if _, ok := r.(crashSignal); !ok {
					panic(r)
				}
				m.Crashed = true
			}
		}()
		if err := ci.SaveHistorical(blk(in.H)); err != nil {
			m.Note = "SaveHistorical: " + err.Error()
		}
	}()
	ci2, err := open(base)
	m.ReopenOK = err == nil
	if err == nil {
		b, e1 := ci2.GetBlockByHeight(ctx, in.H)
		id, e2 := ci2.GetBlockIDAtHeight(ctx, in.H)
		h2, e3 := ci2.GetBlockIDHeight(ctx, blk(in.H).GetID())
		b2, e4 := ci2.GetBlock(ctx, blk(in.H).GetID())
		m.ByHeight, m.IDAt, m.HeightOf, m.ByID = e1 == nil, e2 == nil, e3 == nil, e4 == nil
		m.Agree = true
		if e1 == nil && (b == nil || b.H != in.H) {
			m.Agree = false
		}
		if e2 == nil && id != blk(in.H).GetID() {
			m.Agree = false
		}
		if e3 == nil && h2 != in.H {
			m.Agree = false
		}
		if e4 == nil && (b2 == nil || b2.H != in.H) {
			m.Agree = false
		}
	} else {
		m.Note = "reopen: " + err.Error()
	}
	coq := emit.App("mkH", emit.N(in.W), emit.N(in.J), emit.N(in.H), emit.N(uint64(in.K)), emit.Bool(m.Crashed), emit.Bool(m.ReopenOK),
		emit.Bool(m.ByHeight), emit.Bool(m.IDAt), emit.Bool(m.HeightOf), emit.Bool(m.ByID), emit.Bool(m.Agree))
	kind := "historical-save/crash-before-write"
	if !m.Crashed {
		kind = "historical-save/no-crash-point-reached"
	}
	return emit.Case{Coq: coq, JSON: m, Nontrivial: m.Crashed || in.K == 0, Kind: kind,
		Sig: "historical-save-not-atomic:height-and-id-mappings-disagree-after-crash"}
}

func TestDriver(t *testing.T) {
	env := emit.GetEnv()
	if env.Out == "" {
		t.Skip("VERIF_OUT not set")
	}
	w, err := emit.NewWriter(env.Out)
	if err != nil {
		t.Fatal(err)
	}
	defer w.Close()
	if env.Mode == "replay" {
		raws, err := emit.ReadReplay(env.Replay)
		if err != nil {
			t.Fatal(err)
		}
		for _, raw := range raws {
			var hin hinput
			if err := json.Unmarshal(raw, &hin); err == nil && hin.Hist {
				_ = w.Put(runHist(hin))
				continue
			}
			var in input
			if err := json.Unmarshal(raw, &in); err != nil {
				t.Fatal(err)
			}
			_ = w.Put(run(in))
		}
		return
	}
	if env.Prop == "C19" {
		// historical backfill after state sync onto height J: every block below J, every write of the save
		js := []uint64{4, 9}
		if env.Tier == "thorough" {
			js = []uint64{2, 3, 4, 6, 9, 14}
		}
		for _, win := range []uint64{0, 2, 100} {
			for _, j := range js {
				for h := uint64(1); h < j; h++ {
					for k := 0; k <= 4; k++ {
						_ = w.Put(runHist(hinput{W: win, J: j, H: h, K: k, Hist: true}))
					}
				}
			}
		}
		return
	}
	// exhaustive over a small grid (the number of durable writes of one update is 1 in the unchanged code)
	maxJ := uint64(6)
	if env.Tier == "thorough" {
		maxJ = 14
	}
	for _, win := range []uint64{0, 1, 2, 3} {
		for j := uint64(1); j <= maxJ; j++ {
			for k := 0; k <= 5; k++ {
				_ = w.Put(run(input{W: win, J: j, K: k}))
			}
		}
	}
}
