// Driver for C12: chain.Transaction.Units / StateKeys on real transactions (chaintest.TestAction actions,
// ED25519 or chaintest.TestAuth auth, a configurable BalanceHandler and genesis.Rules), plus the
// "block = sequence of Manager.Consume calls" cases shared with the fees driver (blockgen).
package units

import (
	"context"
	stded25519 "crypto/ed25519"
	"encoding/json"
	"errors"
	"fmt"
	"math/rand"
	"sort"
	"strconv"
	"strings"
	"testing"

	safemath "github.com/ava-labs/avalanchego/utils/math"

	"github.com/ava-labs/hypersdk/auth"
	"github.com/ava-labs/hypersdk/chain"
	"github.com/ava-labs/hypersdk/chain/chaintest"
	"github.com/ava-labs/hypersdk/codec"
	"github.com/ava-labs/hypersdk/crypto/ed25519"
	"github.com/ava-labs/hypersdk/genesis"
	"github.com/ava-labs/hypersdk/state"
	"github.com/ava-labs/hypersdk/verifharness/drivers/fees/blockgen"
	"github.com/ava-labs/hypersdk/verifharness/emit"
)

type keyDecl struct {
	Key  []byte `json:"key"`
	Perm uint8  `json:"perm"`
}

type unitsIn struct {
	Type      string      `json:"type"` // "units"
	Costs     [7]uint64   `json:"costs"` // base, keyRead, valRead, keyAlloc, valAlloc, keyWrite, valWrite
	ActionCU  []uint64    `json:"action_cu"`
	AuthKind  string      `json:"auth_kind"` // "ed25519" | "test"
	AuthCU    uint64      `json:"auth_cu"`   // only for "test"
	ActionKey [][]keyDecl `json:"action_keys"`
	Sponsor   []keyDecl   `json:"sponsor_keys"`
	Seed      uint8       `json:"seed"` // private key seed / address byte
}

// balance handler with chosen sponsor keys
type bh struct{ keys state.Keys }

func (b bh) SponsorStateKeys(codec.Address) state.Keys { return b.keys }
func (bh) CanDeduct(context.Context, codec.Address, state.Immutable, uint64) error { return nil }
func (bh) Deduct(context.Context, codec.Address, state.Mutable, uint64) error    { return nil }
func (bh) AddBalance(context.Context, codec.Address, state.Mutable, uint64) error { return nil }
func (bh) GetBalance(context.Context, codec.Address, state.Immutable) (uint64, error) {
	return 0, nil
}

func skeyStr(k []byte, p uint8) string {
	return "(" + emit.Bytes(k) + ", " + emit.N(uint64(p)) + ")"
}

func declList(ds []keyDecl) string {
	items := make([]string, len(ds))
	for i, d := range ds {
		items[i] = skeyStr(d.Key, d.Perm)
	}
	return emit.List("skey", items)
}

func errClass(err error) uint64 {
	switch {
	case err == nil:
		return 0
	case errors.Is(err, safemath.ErrOverflow):
		return 1
	case errors.Is(err, chain.ErrInvalidKeyValue):
		return 2
	default:
		return 3
	}
}

func runUnits(in unitsIn) (c emit.Case) {
	defer func() {
		if e := recover(); e != nil {
			c = emit.Case{Coq: "(CUnits 0%N test_rules (@nil N) 0%N (@nil (list skey)) (@nil skey) 9%N (@nil N) 9%N (@nil skey))",
				JSON: in, Nontrivial: true, Kind: "units:panic", Sig: fmt.Sprint("units-panic:", e)}
		}
	}()
	rules := genesis.NewDefaultRules()
	rules.BaseComputeUnits = in.Costs[0]
	rules.StorageKeyReadUnits, rules.StorageValueReadUnits = in.Costs[1], in.Costs[2]
	rules.StorageKeyAllocateUnits, rules.StorageValueAllocateUnits = in.Costs[3], in.Costs[4]
	rules.StorageKeyWriteUnits, rules.StorageValueWriteUnits = in.Costs[5], in.Costs[6]

	actions := make([]chain.Action, len(in.ActionCU))
	akeys := make([]string, len(in.ActionCU))
	for i, cu := range in.ActionCU {
		a := chaintest.NewDummyTestAction()
		a.NumComputeUnits = cu
		a.Nonce = uint64(i)
		var decls []keyDecl
		if i < len(in.ActionKey) {
			decls = in.ActionKey[i]
		}
		for _, d := range decls {
			a.SpecifiedStateKeys = append(a.SpecifiedStateKeys, string(d.Key))
			a.SpecifiedStateKeyPermissions = append(a.SpecifiedStateKeyPermissions, state.Permissions(d.Perm))
		}
		actions[i] = a
		akeys[i] = declList(decls)
	}
	base := chain.Base{Timestamp: 1_000_000, MaxFee: 1000}
	var (
		tx     *chain.Transaction
		err    error
		authCU uint64
	)
	switch in.AuthKind {
	case "ed25519":
		seed := make([]byte, 32)
		seed[0] = in.Seed
		var priv ed25519.PrivateKey
		copy(priv[:], stded25519.NewKeyFromSeed(seed))
		factory := auth.NewED25519Factory(priv)
		txData := chain.NewTxData(base, actions)
		tx, err = txData.Sign(factory)
		if err == nil {
			authCU = tx.Auth.ComputeUnits(rules)
		}
	default:
		ta := chaintest.NewDummyTestAuth()
		ta.NumComputeUnits = in.AuthCU
		ta.SponsorAddress = codec.Address{in.Seed, 9}
		tx, err = chain.NewTransaction(base, actions, ta)
		authCU = in.AuthCU
	}
	if err != nil {
		panic(err)
	}
	sk := make(state.Keys)
	for _, d := range in.Sponsor {
		sk[string(d.Key)] = state.Permissions(d.Perm)
	}
	handler := bh{keys: sk}

	// the same transaction object has been metered before under OTHER rules (as admission before a rules change
	// would): what Units answers must depend on the rules it is given, not on an earlier call
	if in.Seed%2 == 0 {
		alt := *rules
		alt.BaseComputeUnits = rules.BaseComputeUnits/2 + 1
		alt.StorageKeyReadUnits, alt.StorageValueReadUnits = rules.StorageKeyReadUnits/3+1, rules.StorageValueReadUnits/2+2
		alt.StorageKeyAllocateUnits, alt.StorageValueAllocateUnits = rules.StorageKeyAllocateUnits/3+2, rules.StorageValueAllocateUnits/2+1
		alt.StorageKeyWriteUnits, alt.StorageValueWriteUnits = rules.StorageKeyWriteUnits/3+3, rules.StorageValueWriteUnits/2+3
		_, _ = tx.Units(handler, &alt)
	}
	units, uerr := tx.Units(handler, rules)
	keys, kerr := tx.StateKeys(handler)
	// a second call must give the same answer (cached keys)
	units2, uerr2 := tx.Units(handler, rules)
	if units2 != units || errClass(uerr2) != errClass(uerr) {
		units[0] ^= 0xdead
	}
	size := uint64(len(tx.Bytes()))

	ks := make([]string, 0, len(keys))
	for k := range keys {
		ks = append(ks, k)
	}
	sort.Strings(ks)
	ikeys := make([]string, len(ks))
	for i, k := range ks {
		ikeys[i] = skeyStr([]byte(k), uint8(keys[k]))
	}
	cs := make([]string, 7)
	for i, v := range in.Costs {
		cs[i] = emit.N(v)
	}
	coq := emit.App("CUnits", emit.N(size), "(mkUR "+strings.Join(cs, " ")+")", blockgen.NList(in.ActionCU), emit.N(authCU),
		emit.List("list skey", akeys), declList(in.Sponsor),
		emit.N(errClass(uerr)), blockgen.NList(units[:]), emit.N(errClass(kerr)), emit.List("skey", ikeys))
	kind := "units:" + in.AuthKind + ":err" + strconv.FormatUint(errClass(uerr), 10)
	return emit.Case{Coq: coq, JSON: in, Nontrivial: len(ks) > 0, Kind: kind,
		Sig: "units-not-exact:err" + strconv.FormatUint(errClass(uerr), 10)}
}

// ---- generators

var keyNames = [][]byte{[]byte("a"), []byte("b"), []byte("bal"), {0x00, 0x01}, {}}

func genKey(r *rand.Rand) []byte {
	if r.Intn(40) == 0 { // malformed: shorter than the 2-byte suffix
		return [][]byte{{}, {7}}[r.Intn(2)]
	}
	name := keyNames[r.Intn(len(keyNames))]
	var chunks uint16
	switch r.Intn(8) {
	case 0:
		chunks = 0
	case 1:
		chunks = 1
	case 2:
		chunks = 65535
	case 3:
		chunks = 65534
	case 4:
		chunks = uint16(255 + r.Intn(3)) // byte-order sensitive: 0x00ff, 0x0100, 0x0101
	case 5:
		chunks = uint16(r.Intn(4))
	default:
		chunks = uint16(r.Intn(65536))
	}
	return append(append([]byte{}, name...), byte(chunks>>8), byte(chunks))
}

var perms = []uint8{1, 3, 5, 7, 0, 2, 4}

func genDecls(r *rand.Rand, pool [][]byte, max int) []keyDecl {
	n := r.Intn(max + 1)
	seen := map[string]bool{}
	var out []keyDecl
	for i := 0; i < n; i++ {
		var k []byte
		if len(pool) > 0 && r.Intn(2) == 0 {
			k = pool[r.Intn(len(pool))] // duplicate across actions / sponsor
		} else {
			k = genKey(r)
		}
		if seen[string(k)] { // an action's StateKeys is a map: distinct keys inside one action
			continue
		}
		seen[string(k)] = true
		out = append(out, keyDecl{Key: k, Perm: perms[r.Intn(len(perms))]})
	}
	return out
}

func genCost(r *rand.Rand, cls int) uint64 {
	switch cls {
	case 0: // defaults-like
		return uint64(r.Intn(50))
	case 1: // overflow-inducing
		return blockgen.BU64(r)
	default: // products chunks*cost near 2^64: cost ~ 2^64/65535, 2^48
		return []uint64{281479271743489, 281479271743488, 281479271743490, 1 << 48, 1<<48 - 1, 1<<48 + 1, 1 << 47, blockgen.MaxU / 3, blockgen.MaxU / 2, blockgen.MaxU/2 + 1}[r.Intn(10)]
	}
}

func genUnits(r *rand.Rand) unitsIn {
	in := unitsIn{Type: "units", Seed: uint8(r.Intn(4))}
	cls := []int{0, 0, 0, 1, 2, 2}[r.Intn(6)]
	for i := range in.Costs {
		c := cls
		if r.Intn(14) == 0 {
			c = r.Intn(3)
		}
		in.Costs[i] = genCost(r, c)
	}
	if cls != 1 && r.Intn(3) != 0 {
		in.Costs[0] = uint64(r.Intn(50))
	}
	if r.Intn(7) == 0 {
		// sums on the 2^64 edge built from a huge per-key cost and SMALL per-chunk costs: with m declared keys the key
		// part is just below 2^64 and a few chunks times a small value cost carry the total across (or not)
		m := uint64(1 + r.Intn(4))
		for _, i := range []int{1, 3, 5} {
			in.Costs[i] = blockgen.MaxU/m - uint64(r.Intn(300))
			in.Costs[i+1] = uint64(r.Intn(60))
		}
	}
	nAct := 1 + r.Intn(4)
	var pool [][]byte
	for i := 0; i < nAct; i++ {
		switch r.Intn(12) {
		case 0:
			in.ActionCU = append(in.ActionCU, blockgen.BU64(r))
		case 1:
			in.ActionCU = append(in.ActionCU, blockgen.MaxU-in.Costs[0]-uint64(r.Intn(8)))
		default:
			in.ActionCU = append(in.ActionCU, uint64(r.Intn(10)))
		}
		d := genDecls(r, pool, 4)
		for _, x := range d {
			pool = append(pool, x.Key)
		}
		in.ActionKey = append(in.ActionKey, d)
	}
	in.Sponsor = genDecls(r, pool, 2)
	if r.Intn(3) == 0 {
		in.AuthKind = "ed25519"
	} else {
		in.AuthKind = "test"
		switch r.Intn(8) {
		case 0:
			in.AuthCU = blockgen.BU64(r)
		case 1, 2: // exactly at / one past the overflow edge of the compute sum
			sum := in.Costs[0]
			ok := true
			for _, c := range in.ActionCU {
				if sum+c < sum {
					ok = false
				}
				sum += c
			}
			if ok {
				in.AuthCU = blockgen.MaxU - sum + uint64(r.Intn(2))
			}
		default:
			in.AuthCU = uint64(r.Intn(10))
		}
	}
	return in
}

func TestDriver(t *testing.T) {
	env := emit.GetEnv()
	if env.Out == "" {
		t.Skip("VERIF_OUT not set")
	}
	w, err := emit.NewWriter(env.Out)
	if err != nil {
		t.Fatal(err)
	}
	defer w.Close()
	if env.Mode == "replay" {
		raws, err := emit.ReadReplay(env.Replay)
		if err != nil {
			t.Fatal(err)
		}
		for _, raw := range raws {
			var probe struct {
				Type string `json:"type"`
			}
			_ = json.Unmarshal(raw, &probe)
			if probe.Type == "block" {
				c, err := blockgen.Replay(raw)
				if err != nil {
					t.Fatal(err)
				}
				_ = w.Put(c)
				continue
			}
			var in unitsIn
			if err := json.Unmarshal(raw, &in); err != nil {
				t.Fatal(err)
			}
			_ = w.Put(runUnits(in))
		}
		return
	}
	r := env.Rand()
	for i := 0; i < env.N; i++ {
		if i%5 < 2 {
			_ = w.Put(blockgen.Gen(r))
		} else {
			_ = w.Put(runUnits(genUnits(r)))
		}
	}
}
