// Driver for C16: block verification accepts exactly the blocks whose signatures all verify.
//
// Three layers of the real code are driven (see coq/Check/C16_check.v):
//
//	ed   : auth.ED25519AuthEngine.GetBatchVerifier(cores,count) -> Add.../Done, every returned job run at once
//	ab   : chain.NewAuthBatch with auth engines + workers.NewParallel / NewSerial, Add.../Done/Wait
//	exec : chain.Processor.Execute on a block of real transactions
//
// with real ed25519 / secp256r1 / BLS auths, 0..3 invalid signatures at any position.
package authbatch

import (
	"context"
	"encoding/binary"
	"encoding/json"
	"errors"
	"fmt"
	"math"
	"math/big"
	"math/rand"
	"sync/atomic"
	"testing"
	"time"

	"github.com/ava-labs/avalanchego/database/memdb"
	"github.com/ava-labs/avalanchego/ids"
	"github.com/ava-labs/avalanchego/snow/engine/snowman/block"
	"github.com/ava-labs/avalanchego/trace"
	"github.com/ava-labs/avalanchego/utils/logging"
	"github.com/ava-labs/avalanchego/x/merkledb"
	"github.com/prometheus/client_golang/prometheus"

	"github.com/ava-labs/hypersdk/auth"
	"github.com/ava-labs/hypersdk/chain"
	"github.com/ava-labs/hypersdk/crypto"
	"github.com/ava-labs/hypersdk/crypto/bls"
	"github.com/ava-labs/hypersdk/crypto/ed25519"
	"github.com/ava-labs/hypersdk/crypto/secp256r1"
	"github.com/ava-labs/hypersdk/genesis"
	"github.com/ava-labs/hypersdk/internal/validitywindow/validitywindowtest"
	"github.com/ava-labs/hypersdk/internal/workers"
	"github.com/ava-labs/hypersdk/state/balance"
	"github.com/ava-labs/hypersdk/state/metadata"
	"github.com/ava-labs/hypersdk/utils"
	"github.com/ava-labs/hypersdk/verifharness/emit"

	stded "crypto/ed25519"
)

// ---- inputs ------------------------------------------------------------------------------------

// Item is one signature of the block. Bad: 0 valid, 1 signature over another message, 2 signer replaced by
// another key, 3 one bit of the signature flipped (ed25519/secp256r1), 4 high-S mirror n-s (secp256r1).
type Item struct {
	Type uint8 `json:"t"` // 0 ed25519, 1 secp256r1, 2 bls
	Key  int   `json:"k"`
	Bad  int   `json:"bad"`
	Bit  int   `json:"bit"`
}

type Input struct {
	Layer   string `json:"layer"` // "ed" | "ab" | "exec"
	Cores   int    `json:"cores"` // ed: cores argument; ab/exec: number of parallel workers (0 = serial)
	Count   int    `json:"count"` // ed only: the count given to GetBatchVerifier
	EdBatch bool   `json:"ed_batch"`
	Items   []Item `json:"items"`
	Salt    int64  `json:"salt"`
	// Pre (ab / exec): blocks verified first on the SAME worker pool (and processor); their verdicts are not part of
	// the case: the pool carries no state from one job to the next, so the verdict on Items must not depend on them.
	Pre [][]Item `json:"pre,omitempty"`
	// Repeat (exec): the SAME ExecutionBlock object is executed this many times (snow may call Verify again on a
	// block it already tried); the case reports the LAST verdict, which must not depend on earlier attempts.
	Repeat int `json:"repeat,omitempty"`
}

type mirror struct {
	Input
	Adds []int `json:"adds,omitempty"` // -1 nil, 0 job failed, 1 job ok
	Done []int `json:"done,omitempty"`
	NGo  int   `json:"ngo"`
	Res  int   `json:"res"`
	Text string `json:"text,omitempty"`
}

// ---- keys --------------------------------------------------------------------------------------

const nKeys = 6

var (
	edKeys  [nKeys]ed25519.PrivateKey
	secKeys [nKeys]secp256r1.PrivateKey
	blsKeys [nKeys]*bls.PrivateKey
	p256N   = new(big.Int)
)

func init() {
	p256N.SetString("115792089210356248762697446949407573529996955224135760342422259061068512044369", 10)
	for i := 0; i < nKeys; i++ {
		seed := make([]byte, 32)
		for j := range seed {
			seed[j] = byte(7*i + j + 1)
		}
		copy(edKeys[i][:], stded.NewKeyFromSeed(seed))
		copy(secKeys[i][:], seed)
		seed[0] = 0 // < group order
		k, err := bls.PrivateKeyFromBytes(seed)
		if err != nil {
			panic(err)
		}
		blsKeys[i] = k
	}
}

func factory(t uint8, k int) chain.AuthFactory {
	switch t {
	case auth.ED25519ID:
		return auth.NewED25519Factory(edKeys[k])
	case auth.SECP256R1ID:
		return auth.NewSECP256R1Factory(secKeys[k])
	default:
		return auth.NewBLSFactory(blsKeys[k])
	}
}

func valid(it Item) bool { return it.Bad == 0 }

// normBad maps a Bad code that does not exist for the item's type to one that does.
func normBad(it Item) Item {
	switch it.Type {
	case auth.ED25519ID:
		if it.Bad == 4 {
			it.Bad = 3
		}
	case auth.BLSID:
		if it.Bad >= 3 {
			it.Bad = 1 + it.Bad%2
		}
	}
	return it
}

// mkAuth signs msg (honestly or not, see Item.Bad).
func mkAuth(it Item, msg []byte) (chain.Auth, error) {
	f := factory(it.Type, it.Key)
	signed := msg
	if it.Bad == 1 {
		signed = append(append([]byte{}, msg...), 0x01)
	}
	a, err := f.Sign(signed)
	if err != nil {
		return nil, err
	}
	other := (it.Key + 1) % nKeys
	switch x := a.(type) {
	case *auth.ED25519:
		switch it.Bad {
		case 2:
			x.Signer = edKeys[other].PublicKey()
		case 3:
			b := it.Bit % (8 * ed25519.SignatureLen)
			x.Signature[b/8] ^= 1 << (b % 8)
		}
	case *auth.SECP256R1:
		switch it.Bad {
		case 2:
			x.Signer = secKeys[other].PublicKey()
		case 3:
			b := it.Bit % (8 * secp256r1.SignatureLen)
			x.Signature[b/8] ^= 1 << (b % 8)
		case 4:
			s := new(big.Int).SetBytes(x.Signature[32:])
			s.Sub(p256N, s)
			s.FillBytes(x.Signature[32:])
		}
	case *auth.BLS:
		if it.Bad == 2 {
			x.Signer = bls.PublicFromPrivateKey(blsKeys[other])
		}
	}
	return a, nil
}

func msgFor(in Input, i int) []byte {
	b := make([]byte, 24)
	binary.BigEndian.PutUint64(b, uint64(in.Salt))
	binary.BigEndian.PutUint64(b[8:], uint64(i))
	binary.BigEndian.PutUint64(b[16:], uint64(len(in.Items)))
	return b
}

// ---- layers ------------------------------------------------------------------------------------

const hangAfter = 60 * time.Second

func runEd(in Input) (m mirror, err error) {
	m.Input = in
	bv := (&auth.ED25519AuthEngine{}).GetBatchVerifier(in.Cores, in.Count)
	for i, it := range in.Items {
		msg := msgFor(in, i)
		a, err := mkAuth(it, msg)
		if err != nil {
			return m, err
		}
		j := bv.Add(msg, a)
		switch {
		case j == nil:
			m.Adds = append(m.Adds, -1)
		case j() == nil:
			m.Adds = append(m.Adds, 1)
		default:
			m.Adds = append(m.Adds, 0)
		}
	}
	for _, j := range bv.Done() {
		if j() == nil {
			m.Done = append(m.Done, 1)
		} else {
			m.Done = append(m.Done, 0)
		}
	}
	return m, nil
}

// recJob counts the tasks handed to the real job.
type recJob struct {
	workers.Job
	n atomic.Int64
}

func (r *recJob) Go(f func() error) {
	r.n.Add(1)
	r.Job.Go(f)
}

func newWorkers(n int) workers.Workers {
	if n == 0 {
		return workers.NewSerial()
	}
	return workers.NewParallel(n, 10)
}

func runAb(in Input) (m mirror, err error) {
	m.Input = in
	type pair struct {
		msg []byte
		a   chain.Auth
	}
	ps := make([]pair, len(in.Items))
	counts := map[uint8]int{}
	for i, it := range in.Items {
		msg := msgFor(in, i)
		a, err := mkAuth(it, msg)
		if err != nil {
			return m, err
		}
		ps[i] = pair{msg, a}
		counts[a.GetTypeID()]++
	}
	engines := auth.Engines{}
	if in.EdBatch {
		engines = auth.DefaultEngines()
	}
	type res struct {
		n   int
		err error
	}
	ch := make(chan res, 1)
	go func() {
		w := newWorkers(in.Cores)
		for pi, pre := range in.Pre {
			pin := in
			pin.Items, pin.Salt = pre, in.Salt+int64(pi)+1
			pcounts := map[uint8]int{}
			type pr struct {
				msg []byte
				a   chain.Auth
			}
			var pps []pr
			for i, it := range pre {
				msg := msgFor(pin, i)
				a, err := mkAuth(normBad(it), msg)
				if err != nil {
					continue
				}
				pps = append(pps, pr{msg, a})
				pcounts[a.GetTypeID()]++
			}
			pjob, err := w.NewJob(len(pps))
			if err != nil {
				ch <- res{0, fmt.Errorf("NewJob(pre): %w", err)}
				return
			}
			pab := chain.NewAuthBatch(&logging.NoLog{}, engines, pjob, pcounts)
			for _, p := range pps {
				pab.Add(p.msg, p.a)
			}
			pab.Done(nil)
			_ = pjob.Wait()
		}
		job, err := w.NewJob(len(ps))
		if err != nil {
			ch <- res{0, fmt.Errorf("NewJob: %w", err)}
			return
		}
		rec := &recJob{Job: job}
		ab := chain.NewAuthBatch(&logging.NoLog{}, engines, rec, counts)
		for _, p := range ps {
			ab.Add(p.msg, p.a)
		}
		ab.Done(nil)
		werr := rec.Wait()
		w.Stop()
		ch <- res{int(rec.n.Load()), werr}
	}()
	select {
	case r := <-ch:
		m.NGo = r.n
		if r.err != nil {
			m.Res = 1
			m.Text = r.err.Error()
		}
	case <-time.After(hangAfter):
		m.Res = 2
		m.Text = "HANG: AuthBatch/Job.Wait/Stop did not return"
	}
	return m, nil
}

var (
	testRules = genesis.NewDefaultRules()
	mdManager = metadata.NewDefaultManager()
	bh        = balance.NewPrefixBalanceHandler([]byte{metadata.DefaultMinimumPrefix})
)

func runExec(in Input) (m mirror, err error) {
	m.Input = in
	ctx := context.Background()
	db, err := merkledb.New(ctx, memdb.New(), merkledb.Config{BranchFactor: merkledb.BranchFactor16, Tracer: trace.Noop})
	if err != nil {
		return m, err
	}
	put := func(k string, v []byte) {
		if err == nil {
			err = db.Put([]byte(k), v)
		}
	}
	put(string(chain.HeightKey(mdManager.HeightPrefix())), binary.BigEndian.AppendUint64(nil, 0))
	put(string(chain.TimestampKey(mdManager.TimestampPrefix())), binary.BigEndian.AppendUint64(nil, 0))
	put(string(chain.FeeKey(mdManager.FeePrefix())), []byte{})
	for t := uint8(0); t < 3; t++ {
		for k := 0; k < nKeys; k++ {
			put(string(bh.BalanceKey(factory(t, k).Address())), binary.BigEndian.AppendUint64(nil, math.MaxUint64/2))
		}
	}
	if err != nil {
		return m, err
	}
	root, err := db.GetMerkleRoot(ctx)
	if err != nil {
		return m, err
	}
	mkBlk := func(items []Item, salt int64) (*chain.StatelessBlock, error) {
		txs := make([]*chain.Transaction, len(items))
		for i, it := range items {
			base := chain.Base{
				Timestamp: utils.UnixRMilli(testRules.GetMinEmptyBlockGap(), testRules.GetValidityWindow()),
				ChainID:   ids.Empty,
				MaxFee:    1_000_000_000 + uint64(salt%1000)*1000 + uint64(i),
			}
			td := chain.NewTxData(base, []chain.Action{})
			a, err := mkAuth(it, td.UnsignedBytes())
			if err != nil {
				return nil, err
			}
			tx, err := chain.NewTransaction(base, []chain.Action{}, a)
			if err != nil {
				return nil, err
			}
			txs[i] = tx
		}
		return chain.NewStatelessBlock(ids.Empty, testRules.GetMinBlockGap(), 1, txs, root, &block.Context{})
	}
	blk, err := mkBlk(in.Items, in.Salt)
	if err != nil {
		return m, err
	}
	var preBlks []*chain.StatelessBlock
	for pi, pre := range in.Pre {
		for i := range pre {
			pre[i] = normBad(pre[i])
		}
		pb, err := mkBlk(pre, in.Salt+int64(pi)+1)
		if err != nil {
			return m, err
		}
		preBlks = append(preBlks, pb)
	}
	metrics, err := chain.NewMetrics(prometheus.NewRegistry())
	if err != nil {
		return m, err
	}
	ch := make(chan error, 1)
	go func() {
		w := newWorkers(in.Cores)
		p := chain.NewProcessor(trace.Noop, &logging.NoLog{}, &genesis.ImmutableRuleFactory{Rules: testRules}, w,
			auth.DefaultEngines(), mdManager, bh, &validitywindowtest.MockTimeValidityWindow[*chain.Transaction]{},
			metrics, chain.NewDefaultConfig())
		for _, pb := range preBlks {
			_, _ = p.Execute(ctx, db, chain.NewExecutionBlock(pb), false)
		}
		eb := chain.NewExecutionBlock(blk)
		_, err := p.Execute(ctx, db, eb, false)
		for i := 1; i < in.Repeat; i++ {
			time.Sleep(3 * time.Millisecond) // let completion callbacks of the previous attempt run
			_, err = p.Execute(ctx, db, eb, false)
		}
		w.Stop()
		ch <- err
	}()
	select {
	case e := <-ch:
		switch {
		case e == nil:
			m.Res = 0
		case errors.Is(e, crypto.ErrInvalidSignature):
			m.Res = 1
			m.Text = e.Error()
		default:
			m.Res = 2
			m.Text = e.Error()
		}
	case <-time.After(hangAfter):
		m.Res = 3
		m.Text = "HANG: Processor.Execute did not return"
	}
	return m, nil
}

// ---- case printing -----------------------------------------------------------------------------

func coqBlk(items []Item) string {
	xs := make([]string, len(items))
	for i, it := range items {
		xs[i] = emit.Pair(emit.N(uint64(it.Type)), emit.Bool(valid(it)))
	}
	return emit.List("N * bool", xs)
}

func run(in Input) emit.Case {
	if in.Layer == "ed" && in.Cores < 1 {
		in.Cores = 1
	}
	for i := range in.Items {
		if in.Layer == "ed" {
			in.Items[i].Type = auth.ED25519ID
		}
		in.Items[i].Type %= 3
		in.Items[i] = normBad(in.Items[i])
		in.Items[i].Key = ((in.Items[i].Key % nKeys) + nKeys) % nKeys
	}
	nbad, lastBad, types := 0, false, map[uint8]bool{}
	for i, it := range in.Items {
		types[it.Type] = true
		if !valid(it) {
			nbad++
			lastBad = lastBad || i == len(in.Items)-1
		}
	}
	var m mirror
	var err error
	var coq string
	workersModel := uint64(in.Cores)
	if in.Cores == 0 {
		workersModel = 1 // SerialJob.Workers()
	}
	switch in.Layer {
	case "ed":
		m, err = runEd(in)
		vs := make([]string, len(in.Items))
		for i, it := range in.Items {
			vs[i] = emit.Bool(valid(it))
		}
		adds := make([]string, len(m.Adds))
		for i, a := range m.Adds {
			if a < 0 {
				adds[i] = "None"
			} else {
				adds[i] = emit.Some(emit.Bool(a == 1))
			}
		}
		done := make([]string, len(m.Done))
		for i, d := range m.Done {
			done[i] = emit.Bool(d == 1)
		}
		coq = emit.App("CEd", emit.N(uint64(in.Cores)), emit.N(uint64(in.Count)), emit.List("bool", vs),
			emit.List("option bool", adds), emit.List("bool", done))
	case "ab":
		m, err = runAb(in)
		coq = emit.App("CAb", emit.N(workersModel), emit.Bool(in.EdBatch), coqBlk(in.Items), emit.N(uint64(m.NGo)), emit.N(uint64(m.Res)))
	default:
		in.Layer = "exec"
		if in.Cores < 1 {
			in.Cores, workersModel = 1, 1
		}
		m, err = runExec(in)
		coq = emit.App("CEx", emit.N(workersModel), coqBlk(in.Items), emit.N(uint64(m.Res)))
	}
	if err != nil {
		// harness-level failure: make it visible as a failing case
		m.Input = in
		m.Text = "driver error: " + err.Error()
		coq = emit.App("CEx", emit.N(1), coqBlk(in.Items), emit.N(2))
	}
	sig := "sigcheck-" + in.Layer
	switch {
	case m.Res >= 2 && in.Layer != "ed":
		sig += "-hang-or-foreign-error"
	case nbad > 0:
		sig += "-accepts-invalid-signature"
	default:
		sig += "-rejects-valid-block"
	}
	kind := fmt.Sprintf("%s/bad%d", in.Layer, min(nbad, 3))
	if len(types) > 1 {
		kind += "/mixed"
	}
	if lastBad {
		kind += "/lastbad"
	}
	if len(in.Pre) > 0 {
		kind += "/reused-pool"
	}
	if in.Repeat > 1 {
		kind += "/re-executed"
	}
	return emit.Case{Coq: coq, JSON: m, Nontrivial: len(in.Items) >= 1, Kind: kind, Sig: sig}
}

// ---- generators --------------------------------------------------------------------------------

func batchSize(count, cores int) int { return max(count/cores, ed25519.MinBatchSize) }

// pickBad chooses 0..3 invalid positions, biased to batch boundaries and the ends.
func pickBad(r *rand.Rand, n, bs int) map[int]bool {
	bad := map[int]bool{}
	if n == 0 {
		return bad
	}
	k := []int{0, 0, 1, 1, 1, 2, 3}[r.Intn(7)]
	for i := 0; i < k; i++ {
		var p int
		switch r.Intn(6) {
		case 0:
			p = n - 1
		case 1:
			p = 0
		case 2: // around a batch boundary
			p = bs*(1+r.Intn(max(1, n/bs))) - 1 + r.Intn(2)
		case 3: // in the last (partial or duplicated) batch
			p = n - 1 - r.Intn(min(n, bs))
		default:
			p = r.Intn(n)
		}
		if p >= 0 && p < n {
			bad[p] = true
		}
	}
	return bad
}

// boundaryCount returns a count of the form k*batch + {-1,0,1} for the given cores.
func boundaryCount(r *rand.Rand, cores, maxN int) int {
	for try := 0; try < 20; try++ {
		n := 1 + r.Intn(maxN)
		bs := batchSize(n, cores)
		c := bs*(1+r.Intn(max(1, n/bs))) + r.Intn(3) - 1
		if c >= 1 && c <= maxN {
			return c
		}
	}
	return 1 + r.Intn(maxN)
}

func genItems(r *rand.Rand, n int, mix int, bs int) []Item {
	bad := pickBad(r, n, bs)
	items := make([]Item, n)
	for i := range items {
		var t uint8
		switch mix {
		case 0:
			t = auth.ED25519ID
		case 1: // mostly ed25519
			t = []uint8{0, 0, 0, 0, 1, 2}[r.Intn(6)]
		case 2:
			t = uint8(r.Intn(3))
		case 3:
			t = auth.SECP256R1ID
		default:
			t = auth.BLSID
		}
		items[i] = Item{Type: t, Key: r.Intn(nKeys)}
		if bad[i] {
			items[i].Bad = 1 + r.Intn(4)
			items[i].Bit = r.Intn(512)
		}
	}
	return items
}

func gen(r *rand.Rand, i int) Input {
	in := Input{Salt: r.Int63n(1 << 40)}
	cores := 1 + r.Intn(16)
	switch x := i % 10; {
	case x < 4: // bare ED25519Batch
		in.Layer = "ed"
		in.Cores = cores
		n := boundaryCount(r, cores, 70)
		if r.Intn(8) == 0 {
			n = r.Intn(10)
		}
		in.Count = n
		switch r.Intn(12) {
		case 0: // the verifier is told a wrong count (never done by the processor): model correspondence only
			in.Count = max(0, n+r.Intn(7)-3)
		case 1:
			in.Count = n * (1 + r.Intn(3))
		}
		in.Items = genItems(r, n, 0, batchSize(in.Count, cores))
	case x < 7: // AuthBatch + workers
		in.Layer = "ab"
		in.Cores = cores
		if r.Intn(5) == 0 {
			in.Cores = 0
		}
		in.EdBatch = r.Intn(6) != 0
		n := boundaryCount(r, cores, 48)
		if r.Intn(10) == 0 {
			n = r.Intn(6)
		}
		mix := []int{0, 0, 1, 1, 2, 2, 3, 4}[r.Intn(8)]
		if mix >= 2 {
			n = min(n, 24)
		}
		in.Items = genItems(r, n, mix, batchSize(n, max(1, in.Cores)))
	default: // Processor.Execute
		// parallel workers only: SerialJob.Wait does not wait for the asynchronous AuthBatch.Done of
		// verifySignatures (a race that exists only with workers.NewSerial + a batch engine, never configured by the VM)
		in.Layer = "exec"
		in.Cores = cores
		n := boundaryCount(r, cores, 40)
		mix := []int{0, 0, 1, 1, 2, 2, 3, 4}[r.Intn(8)]
		if mix >= 2 {
			n = min(n, 20)
		}
		in.Items = genItems(r, n, mix, batchSize(n, max(1, in.Cores)))
	}
	if in.Layer == "exec" && r.Intn(3) == 0 {
		in.Repeat = 2 + r.Intn(2)
	}
	if in.Layer != "ed" && r.Intn(3) == 0 {
		// the same pool first verifies one or two other blocks, at least one of them with an invalid signature
		for k := 1 + r.Intn(2); k > 0; k-- {
			pn := 1 + r.Intn(12)
			pre := genItems(r, pn, []int{0, 1, 2}[r.Intn(3)], batchSize(pn, max(1, in.Cores)))
			if k == 1 {
				j := r.Intn(len(pre))
				pre[j].Bad, pre[j].Bit = 1+r.Intn(3), r.Intn(256)
			}
			in.Pre = append(in.Pre, pre)
		}
	}
	return in
}

func TestDriver(t *testing.T) {
	env := emit.GetEnv()
	if env.Out == "" {
		t.Skip("VERIF_OUT not set")
	}
	w, err := emit.NewWriter(env.Out)
	if err != nil {
		t.Fatal(err)
	}
	defer w.Close()
	if env.Mode == "replay" {
		raws, err := emit.ReadReplay(env.Replay)
		if err != nil {
			t.Fatal(err)
		}
		for _, raw := range raws {
			var in Input
			if err := json.Unmarshal(raw, &in); err != nil {
				t.Fatal(err)
			}
			_ = w.Put(run(in))
		}
		return
	}
	r := env.Rand()
	if env.Tier == "thorough" {
		// exhaustive for the bare batch verifier: every cores 1..16, count 0..36, one invalid signature at every
		// position (and none)
		for cores := 1; cores <= 16; cores++ {
			for n := 0; n <= 36; n++ {
				for bad := -1; bad < n; bad++ {
					items := make([]Item, n)
					for i := range items {
						items[i] = Item{Type: auth.ED25519ID, Key: i % nKeys}
					}
					if bad >= 0 {
						items[bad].Bad = 1 + bad%3
						items[bad].Bit = 37 * bad
					}
					_ = w.Put(run(Input{Layer: "ed", Cores: cores, Count: n, Items: items, Salt: int64(1000*cores + n)}))
				}
			}
		}
		// every ed25519 count 1..20 through AuthBatch and Execute with the last / first signature invalid
		for _, layer := range []string{"ab", "exec"} {
			for _, cores := range []int{0, 1, 2, 3, 4, 5, 8, 16} {
				if layer == "exec" && cores == 0 {
					continue
				}
				for n := 1; n <= 20; n++ {
					for _, bad := range []int{-1, 0, n - 1} {
						items := make([]Item, n)
						for i := range items {
							items[i] = Item{Type: auth.ED25519ID, Key: i % nKeys}
						}
						if bad >= 0 {
							items[bad].Bad = 1
						}
						_ = w.Put(run(Input{Layer: layer, Cores: cores, EdBatch: true, Items: items, Salt: int64(n)}))
					}
				}
			}
		}
	}
	for i := 0; i < env.N; i++ {
		_ = w.Put(run(gen(r, i)))
	}
}
