// Driver for C38: internal/chain.Bonder (SetMaxBalance/Bond/Unbond) on memdb with a tstate view as the
// Mutable, and x/fdsmr.Node (BuildChunk/Accept) around the real Bonder with a stub inner DSMR.
package bond

import (
	"context"
	"encoding/binary"
	"encoding/json"
	"errors"
	"fmt"
	"math"
	"math/rand"
	"testing"

	"github.com/ava-labs/avalanchego/database"
	"github.com/ava-labs/avalanchego/database/memdb"
	"github.com/ava-labs/avalanchego/x/merkledb"

	"github.com/ava-labs/hypersdk/chain"
	"github.com/ava-labs/hypersdk/codec"
	ichain "github.com/ava-labs/hypersdk/internal/chain"
	"github.com/ava-labs/hypersdk/state"
	"github.com/ava-labs/hypersdk/state/tstate"
	"github.com/ava-labs/hypersdk/verifharness/emit"
	"github.com/ava-labs/hypersdk/x/dsmr"
	"github.com/ava-labs/hypersdk/x/fdsmr"
)

// ---- inputs ----------------------------------------------------------------------------------

type txSpec struct {
	Sponsor int   `json:"sponsor"` // account index
	AuthLen int   `json:"authlen"` // length of the auth payload: varies the encoded size
	Expiry  int64 `json:"expiry"`  // Base.Timestamp
	Salt    int   `json:"salt"`    // MaxFee: makes otherwise equal txs distinct
}

type opSpec struct {
	K      string  `json:"k"` // setmax | bond | unbond | build | accept
	A      int     `json:"a,omitempty"`
	M      uint64  `json:"m,omitempty"`
	T      int     `json:"t,omitempty"`
	Rate   uint64  `json:"rate,omitempty"`
	GE     bool    `json:"ge,omitempty"` // Mutable.GetValue fails
	DE     bool    `json:"de,omitempty"` // inner DSMR fails
	Txs    []int   `json:"txs,omitempty"`
	TS     int64   `json:"ts,omitempty"`
	Chunks [][]int `json:"chunks,omitempty"`
}

type input struct {
	NAcc int      `json:"nacc"`
	Txs  []txSpec `json:"txs"`
	Ops  []opSpec `json:"ops"`
}

type outObs struct {
	RC     int       `json:"rc"`
	Bonded *[]int    `json:"bonded,omitempty"`
	Pend   []uint64  `json:"pend"`
	Fees   []*uint64 `json:"fees"`
}

type mirror struct {
	input
	Sizes []int    `json:"sizes"`
	Outs  []outObs `json:"outs"`
}

// ---- auth with a configurable sponsor and payload ---------------------------------------------

type vAuth struct {
	addr    codec.Address
	payload []byte
}

func (vAuth) GetTypeID() uint8                         { return 0 }
func (vAuth) ValidRange(chain.Rules) (int64, int64)    { return 0, math.MaxInt64 }
func (a vAuth) Bytes() []byte                          { return a.payload }
func (vAuth) ComputeUnits(chain.Rules) uint64          { return 0 }
func (vAuth) Verify(context.Context, []byte) error     { return nil }
func (a vAuth) Actor() codec.Address                   { return a.addr }
func (a vAuth) Sponsor() codec.Address                 { return a.addr }

func accAddr(i int) codec.Address {
	var a codec.Address
	a[0] = 7
	a[1] = byte(i + 1)
	a[codec.AddressLen-1] = byte(0xA0 + i)
	return a
}

func makeTx(s txSpec) (*chain.Transaction, error) {
	payload := make([]byte, s.AuthLen)
	for i := range payload {
		payload[i] = byte(s.Sponsor + 1)
	}
	return chain.NewTransaction(
		chain.Base{Timestamp: s.Expiry, MaxFee: uint64(s.Salt)},
		nil,
		vAuth{addr: accAddr(s.Sponsor), payload: payload},
	)
}

// ---- Mutable: tstate view over an (empty) merkledb, with an injectable read failure -----------

var errInjected = errors.New("injected mutable failure")

type failingMutable struct {
	state.Mutable
	fail bool
}

func (m *failingMutable) GetValue(ctx context.Context, key []byte) ([]byte, error) {
	if m.fail {
		return nil, errInjected
	}
	return m.Mutable.GetValue(ctx, key)
}

// ---- stub inner DSMR --------------------------------------------------------------------------

type stubDSMR struct {
	buildErr  bool
	acceptErr bool
	called    bool
	gotTxs    []*chain.Transaction
	chunks    [][]*chain.Transaction
}

func (s *stubDSMR) BuildChunk(_ context.Context, txs []*chain.Transaction, _ int64, _ codec.Address) error {
	s.called = true
	s.gotTxs = append([]*chain.Transaction{}, txs...)
	if s.buildErr {
		return errInjected
	}
	return nil
}

func (s *stubDSMR) Accept(_ context.Context, block dsmr.Block) (dsmr.ExecutedBlock[*chain.Transaction], error) {
	if s.acceptErr {
		return dsmr.ExecutedBlock[*chain.Transaction]{}, errInjected
	}
	eb := dsmr.ExecutedBlock[*chain.Transaction]{BlockHeader: block.BlockHeader}
	for _, c := range s.chunks {
		eb.Chunks = append(eb.Chunks, dsmr.Chunk[*chain.Transaction]{
			UnsignedChunk: dsmr.UnsignedChunk[*chain.Transaction]{Txs: c},
		})
	}
	return eb, nil
}

// ---- running one history ----------------------------------------------------------------------

func run(in input, kind string) (c emit.Case, err error) {
	defer func() {
		if r := recover(); r != nil {
			err = fmt.Errorf("panic: %v", r)
		}
	}()
	ctx := context.Background()
	txs := make([]*chain.Transaction, len(in.Txs))
	index := map[string]int{}
	for i, s := range in.Txs {
		tx, e := makeTx(s)
		if e != nil {
			return c, e
		}
		id := tx.GetID()
		if _, dup := index[string(id[:])]; dup {
			return c, fmt.Errorf("tx table has two entries with the same id")
		}
		index[string(id[:])] = i
		txs[i] = tx
	}

	db := memdb.New()
	bonder := ichain.NewBonder(db)
	mdb, e := merkledb.New(ctx, memdb.New(), merkledb.Config{BranchFactor: 2})
	if e != nil {
		return c, e
	}
	view := tstate.New(0).NewView(state.CompletePermissions, mdb, 0)
	mut := &failingMutable{Mutable: view}
	stub := &stubDSMR{}
	node := fdsmr.New[*stubDSMR, *chain.Transaction](stub, bonder)

	readPend := func(a int) (uint64, error) {
		addr := accAddr(a)
		b, e := db.Get(addr[:])
		if errors.Is(e, database.ErrNotFound) {
			return 0, nil
		}
		if e != nil {
			return 0, e
		}
		if len(b) != 8 {
			return 0, fmt.Errorf("pending balance record of length %d", len(b))
		}
		return binary.BigEndian.Uint64(b), nil
	}
	readFee := func(t int) (*uint64, error) {
		id := txs[t].GetID()
		b, e := db.Get(id[:])
		if errors.Is(e, database.ErrNotFound) {
			return nil, nil
		}
		if e != nil {
			return nil, e
		}
		if len(b) != 8 {
			return nil, fmt.Errorf("fee record of length %d", len(b))
		}
		v := binary.BigEndian.Uint64(b)
		return &v, nil
	}

	pick := func(ix []int) []*chain.Transaction {
		out := make([]*chain.Transaction, len(ix))
		for i, t := range ix {
			out[i] = txs[t]
		}
		return out
	}

	var outs []outObs
	var coqOps, coqOuts []string
	nontrivial := false
	sig := "bond-history-observables-differ"
	for _, o := range in.Ops {
		obs := outObs{}
		switch o.K {
		case "setmax":
			if e := bonder.SetMaxBalance(ctx, mut, accAddr(o.A), o.M); e != nil {
				obs.RC = 2
			}
			coqOps = append(coqOps, emit.App("OSetMax", emit.N(uint64(o.A)), emit.N(o.M)))
		case "bond":
			mut.fail = o.GE
			if f, _ := readFee(o.T); f != nil {
				nontrivial = true // duplicate bond
			}
			ok, e := bonder.Bond(ctx, mut, txs[o.T], o.Rate)
			mut.fail = false
			switch {
			case e != nil:
				obs.RC = 2
			case !ok:
				obs.RC = 1
			}
			coqOps = append(coqOps, emit.App("OBond", emit.N(uint64(o.T)), emit.N(o.Rate), emit.Bool(o.GE)))
		case "unbond":
			nontrivial = true
			if e := bonder.Unbond(txs[o.T]); e != nil {
				obs.RC = 2
			}
			coqOps = append(coqOps, emit.App("OUnbond", emit.N(uint64(o.T))))
		case "build":
			mut.fail = o.GE
			stub.buildErr, stub.called, stub.gotTxs = o.DE, false, nil
			seen := map[int]bool{}
			for _, t := range o.Txs {
				if f, _ := readFee(t); f != nil || seen[t] {
					nontrivial = true // re-submission
				}
				seen[t] = true
			}
			e := node.BuildChunk(ctx, mut, pick(o.Txs), 0, codec.EmptyAddress, o.Rate)
			mut.fail = false
			if e != nil {
				obs.RC = 2
			}
			if stub.called {
				got := make([]int, len(stub.gotTxs))
				for i, tx := range stub.gotTxs {
					id := tx.GetID()
					got[i] = index[string(id[:])]
				}
				obs.Bonded = &got
			}
			coqOps = append(coqOps, emit.App("OBuild", nList(o.Txs), emit.N(o.Rate), emit.Bool(o.GE), emit.Bool(o.DE)))
		case "accept":
			nontrivial = true
			stub.acceptErr = o.DE
			stub.chunks = nil
			chunkTerms := make([]string, len(o.Chunks))
			for i, ch := range o.Chunks {
				stub.chunks = append(stub.chunks, pick(ch))
				chunkTerms[i] = nList(ch)
			}
			_, e := node.Accept(ctx, dsmr.Block{BlockHeader: dsmr.BlockHeader{Timestamp: o.TS}})
			if e != nil {
				obs.RC = 2
			}
			coqOps = append(coqOps, emit.App("OAccept", emit.Z(o.TS), emit.List("list N", chunkTerms), emit.Bool(o.DE)))
		default:
			return c, fmt.Errorf("unknown op %q", o.K)
		}
		// snapshot of the bonder db
		sums := make([]uint64, in.NAcc)
		for a := 0; a < in.NAcc; a++ {
			p, e := readPend(a)
			if e != nil {
				return c, e
			}
			obs.Pend = append(obs.Pend, p)
		}
		feeTerms := make([]string, len(txs))
		for t := range txs {
			f, e := readFee(t)
			if e != nil {
				return c, e
			}
			obs.Fees = append(obs.Fees, f)
			if f != nil {
				sums[in.Txs[t].Sponsor] += *f
				feeTerms[t] = emit.Some(emit.N(*f))
			} else {
				feeTerms[t] = "None"
			}
		}
		for a := 0; a < in.NAcc; a++ {
			if sums[a] != obs.Pend[a] {
				sig = "pending-balance-differs-from-sum-of-recorded-fees"
			}
		}
		pendTerms := make([]string, in.NAcc)
		for a, p := range obs.Pend {
			pendTerms[a] = emit.N(p)
		}
		bonded := "None"
		if obs.Bonded != nil {
			bonded = emit.Some(nList(*obs.Bonded))
		}
		outs = append(outs, obs)
		coqOuts = append(coqOuts, emit.App("mkO", emit.N(uint64(obs.RC)), bonded,
			emit.List("N", pendTerms), emit.List("option N", feeTerms)))
	}

	tbl := make([]string, len(txs))
	sizes := make([]int, len(txs))
	for i, tx := range txs {
		sizes[i] = tx.Size()
		tbl[i] = emit.App("mkTx", emit.N(uint64(in.Txs[i].Sponsor)), emit.N(uint64(tx.Size())), emit.Z(in.Txs[i].Expiry))
	}
	coq := emit.App("mk", emit.List("txinfo", tbl), emit.N(uint64(in.NAcc)), emit.List("op", coqOps), emit.List("out", coqOuts))
	return emit.Case{Coq: coq, JSON: mirror{in, sizes, outs}, Nontrivial: nontrivial, Kind: kind, Sig: sig}, nil
}

func nList(ix []int) string {
	items := make([]string, len(ix))
	for i, v := range ix {
		items[i] = emit.N(uint64(v))
	}
	return emit.List("N", items)
}

// ---- generators -------------------------------------------------------------------------------

var expiries = []int64{10, 20, 30, 40}

// encoded size of a tx with the given spec (independent of rate); used to aim max balances at boundaries
func sizeOf(s txSpec) uint64 {
	tx, err := makeTx(s)
	if err != nil {
		return 100
	}
	return uint64(tx.Size())
}

func genTable(r *rand.Rand) (int, []txSpec) {
	nacc := 2 + r.Intn(2)
	ntx := 4 + r.Intn(2)
	txs := make([]txSpec, ntx)
	for i := range txs {
		sp := r.Intn(nacc)
		if r.Intn(3) == 0 {
			sp = 0 // crowd one account
		}
		txs[i] = txSpec{Sponsor: sp, AuthLen: []int{0, 1, 8, 40}[r.Intn(4)], Expiry: expiries[r.Intn(len(expiries))], Salt: i}
	}
	return nacc, txs
}

func pickRate(r *rand.Rand, huge bool, size uint64) uint64 {
	if huge {
		switch r.Intn(5) {
		case 0:
			return math.MaxUint64
		case 1:
			return math.MaxUint64 / size // largest rate whose fee does not overflow
		case 2:
			return math.MaxUint64/size + 1 // smallest overflowing rate
		case 3:
			return (math.MaxUint64 / size) / 2
		}
		return (math.MaxUint64/size)/2 + 1
	}
	return []uint64{0, 1, 1, 2, 2, 3}[r.Intn(6)]
}

// a max balance aimed at the boundary: the sum of the fees (at rate in {1,2}) of a random subset of the account's txs, -1/0/+1
func pickMax(r *rand.Rand, in *input, a int, huge bool) uint64 {
	if huge {
		return []uint64{math.MaxUint64, math.MaxUint64 - 1, math.MaxUint64 / 2, 1 << 63}[r.Intn(4)]
	}
	var sum uint64
	for _, t := range in.Txs {
		if t.Sponsor == a && r.Intn(2) == 0 {
			sum += sizeOf(t) * uint64(1+r.Intn(2))
		}
	}
	switch r.Intn(6) {
	case 0:
		return 0
	case 1:
		if sum > 0 {
			return sum - 1
		}
	case 2:
		return sum + 1
	case 3:
		return 1 << 20
	}
	return sum
}

func txsOf(in *input, a int) []int {
	var out []int
	for i, t := range in.Txs {
		if t.Sponsor == a {
			out = append(out, i)
		}
	}
	return out
}

func genChunkTxs(r *rand.Rand, in *input, recent []int) []int {
	n := 1 + r.Intn(4)
	out := make([]int, 0, n)
	for i := 0; i < n; i++ {
		switch {
		case len(out) > 0 && r.Intn(4) == 0:
			out = append(out, out[r.Intn(len(out))]) // duplicate within the chunk
		case len(recent) > 0 && r.Intn(3) == 0:
			out = append(out, recent[r.Intn(len(recent))]) // duplicate across chunks
		default:
			out = append(out, r.Intn(len(in.Txs)))
		}
	}
	return out
}

func gen(r *rand.Rand) (input, string) {
	in := input{}
	in.NAcc, in.Txs = genTable(r)
	huge := r.Intn(8) == 0
	nodeLevel := r.Intn(3) != 0
	nops := 5 + r.Intn(26)
	kind := "bonder"
	if nodeLevel {
		kind = "node"
	}
	if huge {
		kind += "-overflow"
	}
	// most histories start by giving the accounts a maximum
	for a := 0; a < in.NAcc; a++ {
		if r.Intn(5) != 0 {
			in.Ops = append(in.Ops, opSpec{K: "setmax", A: a, M: pickMax(r, &in, a, huge)})
		}
	}
	var recent []int
	ts := int64(0)
	for len(in.Ops) < nops {
		x := r.Intn(100)
		switch {
		case x < 12:
			a := r.Intn(in.NAcc)
			in.Ops = append(in.Ops, opSpec{K: "setmax", A: a, M: pickMax(r, &in, a, huge)})
		case !nodeLevel && x < 65:
			t := r.Intn(len(in.Txs))
			if len(recent) > 0 && r.Intn(3) == 0 {
				t = recent[r.Intn(len(recent))]
			}
			recent = append(recent, t)
			in.Ops = append(in.Ops, opSpec{K: "bond", T: t, Rate: pickRate(r, huge, sizeOf(in.Txs[t])), GE: r.Intn(12) == 0})
		case !nodeLevel:
			t := r.Intn(len(in.Txs))
			if len(recent) > 0 && r.Intn(2) == 0 {
				t = recent[r.Intn(len(recent))]
			}
			in.Ops = append(in.Ops, opSpec{K: "unbond", T: t})
		case x < 62:
			ch := genChunkTxs(r, &in, recent)
			recent = append(recent, ch...)
			in.Ops = append(in.Ops, opSpec{K: "build", Txs: ch, Rate: pickRate(r, huge, sizeOf(in.Txs[ch[0]])), GE: r.Intn(14) == 0, DE: r.Intn(10) == 0})
		default:
			// accept: timestamps move forward most of the time, around the expiry values
			switch r.Intn(5) {
			case 0:
				ts = expiries[r.Intn(len(expiries))] + int64(r.Intn(3)) - 1
			case 1:
				// stay
			default:
				ts += int64(r.Intn(12))
			}
			var chunks [][]int
			for i := r.Intn(3); i > 0; i-- {
				chunks = append(chunks, genChunkTxs(r, &in, recent))
			}
			in.Ops = append(in.Ops, opSpec{K: "accept", TS: ts, Chunks: chunks, DE: r.Intn(10) == 0})
		}
	}
	// settle everything: all bonded txs accepted or expired => every pending balance is 0
	if r.Intn(4) != 0 {
		if nodeLevel {
			in.Ops = append(in.Ops, opSpec{K: "accept", TS: 41 + int64(r.Intn(3))})
		} else {
			for t := range in.Txs {
				in.Ops = append(in.Ops, opSpec{K: "unbond", T: t})
			}
		}
	}
	return in, kind
}

func put(t *testing.T, w *emit.Writer, in input, kind string) {
	c, err := run(in, kind)
	if err != nil {
		// the real code failed in a way the model has no counterpart for: report as a failing case
		c = emit.Case{Coq: "(mk (@nil txinfo) 0%N [OSetMax 0%N 0%N] (@nil out))", JSON: in, Nontrivial: true, Kind: kind + ":driver-error", Sig: "bond-driver-error: " + err.Error()}
	}
	if err := w.Put(c); err != nil {
		t.Fatal(err)
	}
}

func TestDriver(t *testing.T) {
	env := emit.GetEnv()
	if env.Out == "" {
		t.Skip("VERIF_OUT not set")
	}
	w, err := emit.NewWriter(env.Out)
	if err != nil {
		t.Fatal(err)
	}
	defer w.Close()
	if env.Mode == "replay" {
		raws, err := emit.ReadReplay(env.Replay)
		if err != nil {
			t.Fatal(err)
		}
		for _, raw := range raws {
			var in input
			if err := json.Unmarshal(raw, &in); err != nil {
				t.Fatal(err)
			}
			put(t, w, in, "replay")
		}
		return
	}
	r := env.Rand()
	if env.Tier == "thorough" {
		// exhaustive: one account, two txs, all node-level histories of length 4 over a small op alphabet
		in0 := input{NAcc: 1, Txs: []txSpec{{Sponsor: 0, AuthLen: 0, Expiry: 10, Salt: 0}, {Sponsor: 0, AuthLen: 8, Expiry: 20, Salt: 1}}}
		s0, s1 := sizeOf(in0.Txs[0]), sizeOf(in0.Txs[1])
		alphabet := []opSpec{
			{K: "setmax", A: 0, M: s0 + s1}, {K: "setmax", A: 0, M: s0 + s1 - 1}, {K: "setmax", A: 0, M: 0},
			{K: "build", Txs: []int{0}, Rate: 1}, {K: "build", Txs: []int{1, 1}, Rate: 1}, {K: "build", Txs: []int{0, 1, 0}, Rate: 1},
			{K: "build", Txs: []int{1}, Rate: 2},
			{K: "accept", TS: 5}, {K: "accept", TS: 11}, {K: "accept", TS: 5, Chunks: [][]int{{0}}}, {K: "accept", TS: 5, Chunks: [][]int{{1, 0}}},
		}
		var rec func(ops []opSpec, depth int)
		rec = func(ops []opSpec, depth int) {
			if depth == 4 {
				in := in0
				in.Ops = append(append([]opSpec{}, ops...), opSpec{K: "accept", TS: 50})
				put(t, w, in, "exhaustive-node")
				return
			}
			for _, o := range alphabet {
				rec(append(ops, o), depth+1)
			}
		}
		rec(nil, 0)
	}
	for i := 0; i < env.N; i++ {
		in, kind := gen(r)
		put(t, w, in, kind)
	}
}
