// Driver for C14: chain.EstimateUnits vs Transaction.Units of the signed transaction.
//
// For each generated (rules, action list, auth factory, timestamp, prices) the driver calls the real
// EstimateUnits, GenerateTransaction (falling back to GenerateTransactionManual when the estimated fee
// overflows), Units of the signed transaction and fees.MulSum on both, and emits everything the model needs
// to recompute both sides: byte lengths, compute units, the keys each action declares under the estimate's
// call and under the signed transaction's call, MaxUnits, the actual auth size, the sponsor keys.
package estimate

import (
	"context"
	stded25519 "crypto/ed25519"
	"encoding/binary"
	"encoding/json"
	"math"
	"math/rand"
	"sort"
	"testing"

	"github.com/ava-labs/avalanchego/ids"

	"github.com/ava-labs/hypersdk/auth"
	"github.com/ava-labs/hypersdk/chain"
	"github.com/ava-labs/hypersdk/chain/chaintest"
	"github.com/ava-labs/hypersdk/codec"
	"github.com/ava-labs/hypersdk/crypto/bls"
	"github.com/ava-labs/hypersdk/crypto/ed25519"
	"github.com/ava-labs/hypersdk/crypto/secp256r1"
	"github.com/ava-labs/hypersdk/examples/morpheusvm/actions"
	"github.com/ava-labs/hypersdk/examples/morpheusvm/storage"
	"github.com/ava-labs/hypersdk/fees"
	"github.com/ava-labs/hypersdk/genesis"
	"github.com/ava-labs/hypersdk/state"
	"github.com/ava-labs/hypersdk/state/balance"
	"github.com/ava-labs/hypersdk/verifharness/emit"
)

type keySpec struct {
	Name   []byte `json:"name"`
	Chunks uint16 `json:"chunks"`
	PerID  bool   `json:"per_id,omitempty"` // key name depends on the action id (chunk suffix does not)
	Short  bool   `json:"short,omitempty"`  // a one-byte key: invalid (no chunk suffix)
}

type actSpec struct {
	Type    int       `json:"type"` // 0 MorpheusVM Transfer, 1 fake action with arbitrary bytes, 2 chaintest.TestAction
	MemoLen int       `json:"memo_len,omitempty"`
	To      int       `json:"to,omitempty"`
	Len     int       `json:"len,omitempty"`
	CU      uint64    `json:"cu,omitempty"`
	Keys    []keySpec `json:"keys,omitempty"`
}

type input struct {
	BaseCU        uint64    `json:"base_cu"`
	KR            uint64    `json:"kr"`
	VR            uint64    `json:"vr"`
	KA            uint64    `json:"ka"`
	VA            uint64    `json:"va"`
	KW            uint64    `json:"kw"`
	VW            uint64    `json:"vw"`
	SponsorChunks []uint16  `json:"sponsor_chunks"`
	W             int64     `json:"w"`
	ChainZero     bool      `json:"chain_zero"`
	Ts            int64     `json:"ts"`
	Prices        [5]uint64 `json:"prices"`
	AuthType      int       `json:"auth_type"` // 0 ed25519, 1 secp256r1, 2 bls, 3 chaintest.TestAuth
	AuthKey       int       `json:"auth_key"`
	TestAuthCU    uint64    `json:"test_auth_cu,omitempty"`
	BH            int       `json:"bh"` // 0 MorpheusVM storage.BalanceHandler, 1 balance.PrefixBalanceHandler{0}
	Actions       []actSpec `json:"actions"`
}

type mirror struct {
	input
	Est      []uint64 `json:"est"`
	EstErr   string   `json:"est_err,omitempty"`
	Units    []uint64 `json:"units"`
	UnitsErr string   `json:"units_err,omitempty"`
	Size     int      `json:"size"`
	GenOK    bool     `json:"gen_ok"`
	MaxFee   uint64   `json:"max_fee"`
}

// ---- a minimal chain.Action with arbitrary bytes and keys -------------------------------------

type fakeAction struct {
	bytes []byte
	cu    uint64
	keys  []keySpec
}

func (*fakeAction) GetTypeID() uint8                       { return 7 }
func (*fakeAction) ValidRange(chain.Rules) (int64, int64)  { return -1, -1 }
func (f *fakeAction) Bytes() []byte                        { return f.bytes }
func (f *fakeAction) ComputeUnits(chain.Rules) uint64      { return f.cu }
func (f *fakeAction) StateKeys(_ codec.Address, id ids.ID) state.Keys {
	return keysOf(f.keys, id)
}
func (*fakeAction) Execute(context.Context, chain.Rules, state.Mutable, int64, codec.Address, ids.ID) ([]byte, error) {
	return nil, nil
}

func keyBytes(k keySpec, id ids.ID) string {
	if k.Short {
		return string(k.Name[:1])
	}
	b := append([]byte{}, k.Name...)
	if k.PerID {
		b = append(b, id[0], id[1])
	}
	return string(binary.BigEndian.AppendUint16(b, k.Chunks))
}

func keysOf(ks []keySpec, id ids.ID) state.Keys {
	m := state.Keys{}
	for _, k := range ks {
		m[keyBytes(k, id)] = state.Read | state.Write
	}
	return m
}

// ---- auth factories ---------------------------------------------------------------------------

func seed32(i int) []byte {
	s := make([]byte, 32)
	s[0] = byte(i + 1)
	s[31] = 0x11
	return s
}

func factoryOf(in input) chain.AuthFactory {
	switch in.AuthType {
	case 0:
		var pk ed25519.PrivateKey
		copy(pk[:], stded25519.NewKeyFromSeed(seed32(in.AuthKey)))
		return auth.NewED25519Factory(pk)
	case 1:
		var pk secp256r1.PrivateKey
		copy(pk[:], seed32(in.AuthKey))
		return auth.NewSECP256R1Factory(pk)
	case 2:
		pk, err := bls.PrivateKeyFromBytes(seed32(in.AuthKey))
		if err != nil {
			panic(err)
		}
		return auth.NewBLSFactory(pk)
	default:
		a := chaintest.NewDummyTestAuth()
		a.NumComputeUnits = in.TestAuthCU
		a.ActorAddress = codec.Address{9, byte(in.AuthKey)}
		a.SponsorAddress = codec.Address{9, byte(in.AuthKey)}
		return &chaintest.TestAuthFactory{TestAuth: a}
	}
}

func addrOf(i int) codec.Address {
	var a codec.Address
	a[0] = 0
	a[1] = byte(i)
	a[32] = 0xee
	return a
}

func actionOf(a actSpec, actor codec.Address) chain.Action {
	switch a.Type {
	case 0:
		to := addrOf(a.To)
		if a.To < 0 {
			to = actor
		}
		return &actions.Transfer{To: to, Value: 1, Memo: make([]byte, a.MemoLen)}
	case 2:
		t := chaintest.NewDummyTestAction()
		t.NumComputeUnits = a.CU
		for _, k := range a.Keys {
			t.SpecifiedStateKeys = append(t.SpecifiedStateKeys, keyBytes(k, ids.Empty))
			t.SpecifiedStateKeyPermissions = append(t.SpecifiedStateKeyPermissions, state.Read|state.Write)
		}
		if a.Len > 0 {
			t.ReadKeys = [][]byte{make([]byte, a.Len)}
		}
		return t
	default:
		b := make([]byte, a.Len)
		for i := range b {
			b[i] = byte(i)
		}
		return &fakeAction{bytes: b, cu: a.CU, keys: a.Keys}
	}
}

func sortedKeys(m state.Keys) [][]byte {
	ks := make([]string, 0, len(m))
	for k := range m {
		ks = append(ks, k)
	}
	sort.Strings(ks)
	out := make([][]byte, len(ks))
	for i, k := range ks {
		out[i] = []byte(k)
	}
	return out
}

func dimsOpt(d fees.Dimensions, err error) string {
	if err != nil {
		return "(@None (list N))"
	}
	items := make([]string, len(d))
	for i, v := range d {
		items[i] = emit.N(v)
	}
	return emit.Some(emit.List("N", items))
}

func nOpt(v uint64, err error) string {
	if err != nil {
		return "(@None N)"
	}
	return emit.Some(emit.N(v))
}

func errStr(err error) string {
	if err == nil {
		return ""
	}
	return err.Error()
}

func run(in input) emit.Case {
	rules := genesis.NewDefaultRules()
	rules.BaseComputeUnits = in.BaseCU
	rules.StorageKeyReadUnits, rules.StorageValueReadUnits = in.KR, in.VR
	rules.StorageKeyAllocateUnits, rules.StorageValueAllocateUnits = in.KA, in.VA
	rules.StorageKeyWriteUnits, rules.StorageValueWriteUnits = in.KW, in.VW
	rules.SponsorStateKeysMaxChunks = in.SponsorChunks
	rules.ValidityWindow = in.W
	if !in.ChainZero {
		rules.ChainID = ids.ID{1, 2, 3}
	}
	rules.MaxActionsPerTx = 255
	var bh chain.BalanceHandler = &storage.BalanceHandler{}
	if in.BH == 1 {
		bh = balance.NewPrefixBalanceHandler([]byte{0})
	}
	factory := factoryOf(in)
	acts := make([]chain.Action, len(in.Actions))
	for i, a := range in.Actions {
		acts[i] = actionOf(a, factory.Address())
	}
	prices := fees.Dimensions(in.Prices)

	est, estErr := chain.EstimateUnits(rules, acts, factory)
	genOK := true
	tx, err := chain.GenerateTransaction(&genesis.ImmutableRuleFactory{Rules: rules}, prices, in.Ts, acts, factory)
	if err != nil {
		genOK = false
		tx, err = chain.GenerateTransactionManual(rules, in.Ts, acts, factory, 1)
		if err != nil {
			panic(err)
		}
	}
	units, unitsErr := tx.Units(bh, rules)
	feeEst, feeEstErr := uint64(0), estErr
	if estErr == nil {
		feeEst, feeEstErr = fees.MulSum(prices, est)
	}
	feeUnits, feeUnitsErr := uint64(0), unitsErr
	if unitsErr == nil {
		feeUnits, feeUnitsErr = fees.MulSum(prices, units)
	}

	// what each side reads of every action
	estItems := make([]string, len(acts))
	txItems := make([]string, len(acts))
	for i, a := range acts {
		kE := sortedKeys(a.StateKeys(factory.Address(), chain.CreateActionID(ids.Empty, uint8(i))))
		kU := sortedKeys(tx.Actions[i].StateKeys(tx.Auth.Actor(), chain.CreateActionID(tx.GetID(), uint8(i))))
		l := uint64(len(a.Bytes()))
		cu := a.ComputeUnits(rules)
		estItems[i] = emit.App("mkEA", emit.N(l), emit.N(cu), emit.BytesList(kE))
		txItems[i] = emit.App("mkTA", emit.N(uint64(len(tx.Actions[i].Bytes()))), emit.N(tx.Actions[i].ComputeUnits(rules)), emit.BytesList(kU))
	}
	authBW, authCU := factory.MaxUnits()
	sponsorKeys := sortedKeys(bh.SponsorStateKeys(tx.Auth.Sponsor()))
	sc := make([]string, len(in.SponsorChunks))
	for i, c := range in.SponsorChunks {
		sc[i] = emit.N(uint64(c))
	}
	pr := make([]string, 5)
	for i, p := range in.Prices {
		pr[i] = emit.N(p)
	}
	coq := emit.App("mk",
		emit.App("mkER", emit.N(in.BaseCU), emit.N(in.KR), emit.N(in.VR), emit.N(in.KA), emit.N(in.VA), emit.N(in.KW), emit.N(in.VW), emit.List("N", sc)),
		emit.Z(tx.Base.Timestamp), emit.Bool(tx.Base.ChainID != ids.Empty), emit.N(tx.Base.MaxFee),
		emit.List("est_action", estItems), emit.List("tx_action", txItems),
		emit.N(authBW), emit.N(authCU),
		emit.N(uint64(len(tx.Auth.Bytes()))), emit.N(tx.Auth.ComputeUnits(rules)),
		emit.BytesList(sponsorKeys), emit.List("N", pr), emit.Bool(genOK),
		dimsOpt(est, estErr), dimsOpt(units, unitsErr), emit.N(uint64(tx.Size())),
		nOpt(feeEst, feeEstErr), nOpt(feeUnits, feeUnitsErr))

	m := mirror{input: in, Est: est[:], EstErr: errStr(estErr), Units: units[:], UnitsErr: errStr(unitsErr),
		Size: tx.Size(), GenOK: genOK, MaxFee: tx.Base.MaxFee}
	// signature: which dimension is under-estimated
	sig := "estimate-below-units"
	if estErr == nil && unitsErr == nil {
		names := []string{"bandwidth", "compute", "read", "allocate", "write"}
		for i := range est {
			if est[i] < units[i] {
				sig = "estimate-below-units-" + names[i]
				break
			}
		}
	} else if estErr == nil {
		sig = "estimate-ok-units-error"
	}
	authNames := []string{"ed25519", "secp256r1", "bls", "testauth"}
	kind := authNames[in.AuthType]
	if estErr != nil {
		kind += ":est-error"
	} else if !genOK {
		kind += ":fee-overflow"
	}
	return emit.Case{Coq: coq, JSON: m, Nontrivial: estErr == nil && len(acts) > 0, Kind: kind, Sig: sig}
}

// ---- generators -------------------------------------------------------------------------------

func pickU(r *rand.Rand, xs []uint64) uint64 { return xs[r.Intn(len(xs))] }

var boundaryLens = []int{0, 1, 2, 45, 46, 100, 126, 127, 128, 129, 130, 146, 200, 255, 256, 300, 1000, 1023, 1024}

func genKeys(r *rand.Rand) []keySpec {
	n := r.Intn(4)
	ks := make([]keySpec, n)
	for i := range ks {
		ks[i] = keySpec{Name: []byte{0, byte(r.Intn(3))}, Chunks: uint16(pickU(r, []uint64{0, 1, 1, 2, 3, 16, 65535}))}
		if r.Intn(5) == 0 {
			ks[i].PerID = true
		}
	}
	return ks
}

func gen(r *rand.Rand) input {
	in := input{BaseCU: 1, KR: 5, VR: 2, KA: 20, VA: 5, KW: 10, VW: 3, SponsorChunks: []uint16{1}, W: 60000}
	if r.Intn(3) == 0 {
		small := []uint64{0, 1, 2, 7, 100, 1 << 20}
		in.BaseCU, in.KR, in.VR, in.KA, in.VA, in.KW, in.VW = pickU(r, small), pickU(r, small), pickU(r, small), pickU(r, small), pickU(r, small), pickU(r, small), pickU(r, small)
	}
	if r.Intn(12) == 0 { // overflow paths
		huge := []uint64{math.MaxUint64, math.MaxUint64 / 2, 1 << 62, 1 << 48}
		switch r.Intn(4) {
		case 0:
			in.BaseCU = pickU(r, huge)
		case 1:
			in.VR = pickU(r, huge)
		case 2:
			in.KW = pickU(r, huge)
		default:
			in.VA = pickU(r, huge)
		}
	}
	switch r.Intn(6) {
	case 0:
		in.SponsorChunks = []uint16{1, 1}
	case 1:
		in.SponsorChunks = []uint16{2, 1}
	case 2:
		in.SponsorChunks = []uint16{1, 0, 65535}
	}
	in.ChainZero = r.Intn(6) == 0
	switch r.Intn(6) {
	case 0:
		in.Ts, in.W = 0, 0 // expiry 0: the timestamp field is omitted from the encoding
	case 1:
		in.Ts = int64(pickU(r, []uint64{1, 63_000, 1 << 20, 1 << 34, 1 << 41}))
	case 2:
		in.Ts = math.MaxInt64 - 70_000
	default:
		in.Ts = 1_700_000_000_000 + int64(r.Intn(1000))
	}
	for i := range in.Prices {
		in.Prices[i] = pickU(r, []uint64{0, 1, 100, 100, 100, 1000, 1 << 30})
	}
	switch r.Intn(10) {
	case 0:
		in.Prices = [5]uint64{}
	case 1:
		in.Prices[r.Intn(5)] = pickU(r, []uint64{math.MaxUint64, 1 << 60, 1 << 56})
	}
	in.AuthType = r.Intn(4)
	in.AuthKey = r.Intn(3)
	in.TestAuthCU = pickU(r, []uint64{0, 1, 5, 1 << 40})
	in.BH = r.Intn(2)
	n := []int{1, 1, 2, 3, 8, 15, 16, 16, 16, 17, 0}[r.Intn(11)]
	mode := r.Intn(4) // 0 transfers, 1 fake actions of one boundary length, 2 mixed, 3 test actions
	fixedLen := boundaryLens[r.Intn(len(boundaryLens))]
	for i := 0; i < n; i++ {
		var a actSpec
		t := mode
		if mode == 2 {
			t = r.Intn(3)
			if t == 2 {
				t = 3
			}
		}
		switch t {
		case 0:
			a = actSpec{Type: 0, MemoLen: []int{0, 1, 80, 81, 82, 83, 100, 200, 256}[r.Intn(9)], To: r.Intn(3) - 1}
		case 3:
			a = actSpec{Type: 2, CU: pickU(r, []uint64{0, 1, 3}), Keys: genKeys(r), Len: []int{0, 1, 65, 66, 67, 68, 69, 70, 71, 72, 73, 74, 200, 900}[r.Intn(14)]}
			for j := range a.Keys {
				a.Keys[j].PerID = false
			}
		default:
			l := fixedLen
			if mode == 2 || r.Intn(4) == 0 {
				l = boundaryLens[r.Intn(len(boundaryLens))]
			}
			a = actSpec{Type: 1, Len: l, CU: pickU(r, []uint64{0, 1, 2, 1000}), Keys: genKeys(r)}
		}
		in.Actions = append(in.Actions, a)
	}
	if r.Intn(25) == 0 && len(in.Actions) > 0 { // an invalid (one-byte) key: both sides must fail
		i := r.Intn(len(in.Actions))
		if in.Actions[i].Type == 1 {
			in.Actions[i].Keys = append(in.Actions[i].Keys, keySpec{Name: []byte{5}, Short: true})
		}
	}
	return in
}

func exhaustive(w *emit.Writer) {
	// every action length 0..300 and the varint boundaries up to 1024, for 16 identical actions, every auth type
	lens := []int{}
	for l := 0; l <= 300; l += 1 {
		lens = append(lens, l)
	}
	lens = append(lens, 1000, 1023, 1024, 16383, 16384)
	for _, l := range lens {
		for at := 0; at < 4; at++ {
			for _, n := range []int{1, 16} {
				in := input{BaseCU: 1, KR: 5, VR: 2, KA: 20, VA: 5, KW: 10, VW: 3, SponsorChunks: []uint16{1}, W: 60000,
					Ts: 1_700_000_000_000, Prices: [5]uint64{100, 100, 100, 100, 100}, AuthType: at, TestAuthCU: 1}
				for i := 0; i < n; i++ {
					in.Actions = append(in.Actions, actSpec{Type: 1, Len: l, CU: 1})
				}
				_ = w.Put(run(in))
			}
		}
	}
}

func TestDriver(t *testing.T) {
	env := emit.GetEnv()
	if env.Out == "" {
		t.Skip("VERIF_OUT not set")
	}
	w, err := emit.NewWriter(env.Out)
	if err != nil {
		t.Fatal(err)
	}
	defer w.Close()
	if env.Mode == "replay" {
		raws, err := emit.ReadReplay(env.Replay)
		if err != nil {
			t.Fatal(err)
		}
		for _, raw := range raws {
			var in input
			if err := json.Unmarshal(raw, &in); err != nil {
				t.Fatal(err)
			}
			_ = w.Put(run(in))
		}
		return
	}
	r := env.Rand()
	if env.Tier == "thorough" {
		exhaustive(w)
	}
	for i := 0; i < env.N; i++ {
		_ = w.Put(run(gen(r)))
	}
}
