// Driver for C37: the real dsmr.Node (Verify / BuildBlock / Accept) with a real
// validitywindow.TimeValidityWindow over chunk certificates and a real ChunkStorage (memdb).
//
// A scenario is a block tree whose blocks reference chunk certificates from a small universe (any
// expiry: expired, inside the window, too far in the future; re-used at later heights and on forks),
// the certificates initially pending in the node's storage, and a sequence of node calls.
// Observables: error class of Verify, result of Accept, and for BuildBlock the error class, the set
// of certificates included and the result of Verify on the built block.
package dsmrverify

import (
	"context"
	"encoding/binary"
	"encoding/json"
	"errors"
	"fmt"
	"math/rand"
	"os"
	"sort"
	"strings"
	"testing"
	"time"

	"github.com/ava-labs/avalanchego/database"
	"github.com/ava-labs/avalanchego/database/memdb"
	"github.com/ava-labs/avalanchego/ids"
	"github.com/ava-labs/avalanchego/network/p2p"
	"github.com/ava-labs/avalanchego/snow/validators"
	"github.com/ava-labs/avalanchego/snow/validators/validatorstest"
	"github.com/ava-labs/avalanchego/trace"
	"github.com/ava-labs/avalanchego/utils/crypto/bls"
	"github.com/ava-labs/avalanchego/utils/crypto/bls/signer/localsigner"
	"github.com/ava-labs/avalanchego/utils/logging"
	"github.com/ava-labs/avalanchego/utils/set"
	"github.com/ava-labs/avalanchego/utils/wrappers"
	"github.com/ava-labs/avalanchego/vms/platformvm/warp"

	"github.com/ava-labs/hypersdk/codec"
	"github.com/ava-labs/hypersdk/consts"
	"github.com/ava-labs/hypersdk/internal/emap"
	"github.com/ava-labs/hypersdk/internal/validitywindow"
	"github.com/ava-labs/hypersdk/utils"
	"github.com/ava-labs/hypersdk/verifharness/emit"
	"github.com/ava-labs/hypersdk/x/dsmr"
	"github.com/ava-labs/hypersdk/x/dsmr/dsmrtest"
)

// ---- scenario ----------------------------------------------------------------------------------

type Cert struct {
	ID     uint64 `json:"id"`
	Expiry int64  `json:"e"`
}

type Block struct {
	ID     uint64 `json:"id"`
	Parent uint64 `json:"parent"`
	Height uint64 `json:"h"`
	Ts     int64  `json:"ts"`
	Certs  []Cert `json:"certs"`
}

type Op struct {
	K  string `json:"k"` // verify | accept | build
	B  uint64 `json:"b"`
	Ts int64  `json:"ts,omitempty"`
}

type Out struct {
	K     string   `json:"k"` // v | a | b | bad
	Code  int      `json:"code"`
	Certs []uint64 `json:"certs,omitempty"`
	VCode int      `json:"vcode,omitempty"`
}

type Scenario struct {
	W       int64   `json:"w"`
	Blocks  []Block `json:"blocks"` // genesis (id 0, height 0, ts 0, no certs) first, parents before children
	Pending []Cert  `json:"pending"`
	Ops     []Op    `json:"ops"`
	Kind    string  `json:"kind"`
}

type mirror struct {
	Scenario
	Outs []Out `json:"outs"`
}

// ---- fixed environment: one validator, its key, signed certificates (cached) --------------------

const networkID = uint32(123)

var chainID = ids.Empty

type chainState struct {
	validatorstest.State
	vals []dsmr.Validator
}

func newChainState(vals []dsmr.Validator) *chainState {
	cs := &chainState{vals: vals}
	cs.GetSubnetIDF = func(context.Context, ids.ID) (ids.ID, error) { return ids.Empty, nil }
	cs.GetValidatorSetF = func(context.Context, uint64, ids.ID) (map[ids.NodeID]*validators.GetValidatorOutput, error) {
		out := map[ids.NodeID]*validators.GetValidatorOutput{}
		for _, v := range cs.vals {
			out[v.NodeID] = &validators.GetValidatorOutput{NodeID: v.NodeID, PublicKey: v.PublicKey, Weight: v.Weight}
		}
		return out, nil
	}
	return cs
}

func (*chainState) GetNetworkID() uint32 { return networkID }
func (*chainState) GetSubnetID() ids.ID  { return ids.Empty }
func (*chainState) GetChainID() ids.ID   { return chainID }
func (*chainState) GetQuorumNum() uint64 { return 1 }
func (*chainState) GetQuorumDen() uint64 { return 1 }
func (c *chainState) GetCanonicalValidatorSet(ctx context.Context) (warp.CanonicalValidatorSet, error) {
	return warp.GetCanonicalValidatorSetFromSubnetID(ctx, c, 0, ids.Empty)
}

func (c *chainState) IsNodeValidator(_ context.Context, nodeID ids.NodeID, _ uint64) (bool, error) {
	for _, v := range c.vals {
		if v.NodeID == nodeID {
			return true, nil
		}
	}
	return false, nil
}

type rules struct{ w int64 }

func (r rules) GetValidityWindow() int64                     { return r.w }
func (rules) GetMaxAccumulatedProducerChunkWeight() uint64   { return 1 << 30 }
func (r rules) GetRules(int64) dsmr.Rules                    { return r }

type signedCert struct {
	chunk dsmr.Chunk[dsmrtest.Tx]
	cert  *dsmr.ChunkCertificate
}

type fixture struct {
	sk     *localsigner.LocalSigner
	pk     *bls.PublicKey
	nodeID ids.NodeID
	signer warp.Signer
	cs     *chainState
	cache  map[Cert]signedCert
}

func newFixture() *fixture {
	sk, err := localsigner.New()
	if err != nil {
		panic(err)
	}
	f := &fixture{sk: sk, pk: sk.PublicKey(), cache: map[Cert]signedCert{}}
	f.nodeID[0] = 0x37
	f.signer = warp.NewSigner(sk, networkID, chainID)
	f.cs = newChainState([]dsmr.Validator{{NodeID: f.nodeID, Weight: 1, PublicKey: f.pk}})
	return f
}

func toID(n uint64) ids.ID {
	var id ids.ID
	binary.BigEndian.PutUint64(id[24:], n)
	id[0] = 0xc7
	return id
}

func (f *fixture) get(c Cert) signedCert {
	if sc, ok := f.cache[c]; ok {
		return sc
	}
	raw := dsmr.Chunk[dsmrtest.Tx]{
		UnsignedChunk: dsmr.UnsignedChunk[dsmrtest.Tx]{
			Producer: f.nodeID,
			Expiry:   c.Expiry,
			Txs:      []dsmrtest.Tx{{ID: toID(c.ID), Expiry: c.Expiry}},
		},
	}
	copy(raw.Signer[:], bls.PublicKeyToCompressedBytes(f.pk))
	packer := wrappers.Packer{Bytes: make([]byte, 0, 1024), MaxSize: consts.NetworkSizeLimit}
	if err := codec.LinearCodec.MarshalInto(&raw, &packer); err != nil {
		panic(err)
	}
	chunk, err := dsmr.ParseChunk[dsmrtest.Tx](packer.Bytes)
	if err != nil {
		panic(err)
	}
	ref := dsmr.ChunkReference{ChunkID: utils.ToID(packer.Bytes), Producer: f.nodeID, Expiry: c.Expiry}
	rp := wrappers.Packer{MaxSize: dsmr.MaxMessageSize}
	if err := codec.LinearCodec.MarshalInto(ref, &rp); err != nil {
		panic(err)
	}
	msg, err := warp.NewUnsignedMessage(networkID, chainID, rp.Bytes)
	if err != nil {
		panic(err)
	}
	sigBytes, err := f.signer.Sign(msg)
	if err != nil {
		panic(err)
	}
	bits := set.NewBits(0)
	sig := &warp.BitSetSignature{Signers: bits.Bytes()}
	copy(sig.Signature[:], sigBytes)
	sc := signedCert{chunk: chunk, cert: &dsmr.ChunkCertificate{ChunkReference: ref, Signature: sig}}
	f.cache[c] = sc
	return sc
}

// ---- chain index over the DSMR validity-window block type ---------------------------------------

type chainIndex[T emap.Item] struct {
	blocks map[ids.ID]validitywindow.ExecutionBlock[T]
}

func (c *chainIndex[T]) GetExecutionBlock(_ context.Context, id ids.ID) (validitywindow.ExecutionBlock[T], error) {
	if b, ok := c.blocks[id]; ok {
		return b, nil
	}
	return nil, database.ErrNotFound
}

// ---- running a scenario -------------------------------------------------------------------------

func classify(err error) int {
	switch {
	case err == nil:
		return 0
	case errors.Is(err, validitywindow.ErrDuplicateContainer):
		return 1
	case errors.Is(err, dsmr.ErrInvalidChunkCertExpiry):
		return 3
	case errors.Is(err, dsmr.ErrEmptyBlock):
		return 4
	case errors.Is(err, dsmr.ErrInvalidBlockTimestamp):
		return 5
	case errors.Is(err, dsmr.ErrInvalidBlockHeight):
		return 6
	case errors.Is(err, dsmr.ErrInvalidBlockParent):
		return 7
	case errors.Is(err, dsmr.ErrInvalidWarpSignature):
		return 9
	default:
		return 2
	}
}

type session struct {
	ctx          context.Context
	node         *dsmr.Node[dsmrtest.Tx]
	storage      *dsmr.ChunkStorage[dsmrtest.Tx]
	real         map[uint64]dsmr.Block
	parentOf     map[uint64]uint64
	chunkToModel map[ids.ID]uint64
	dead         bool
}

func runScenario(f *fixture, sc Scenario) []Out {
	s := newSession(f, sc)
	outs := make([]Out, 0, len(sc.Ops))
	for _, op := range sc.Ops {
		if s.dead {
			break
		}
		outs = append(outs, s.apply(op))
	}
	return outs
}

func newSession(f *fixture, sc Scenario) *session {
	ctx := context.Background()
	rf := rules{w: sc.W}
	storage, err := dsmr.NewChunkStorage[dsmrtest.Tx](dsmr.NewChunkVerifier[dsmrtest.Tx](f.cs, rf), memdb.New(), rf)
	if err != nil {
		panic(err)
	}
	chunkToModel := map[ids.ID]uint64{}
	for _, c := range sc.Pending {
		s := f.get(c)
		if err := storage.AddLocalChunkWithCert(s.chunk, s.cert); err != nil {
			panic(err)
		}
		chunkToModel[s.cert.ChunkID] = c.ID
	}
	// blocks
	real := map[uint64]dsmr.Block{}
	idx := &chainIndex[*dsmr.EmapChunkCertificate]{blocks: map[ids.ID]validitywindow.ExecutionBlock[*dsmr.EmapChunkCertificate]{}}
	for i, b := range sc.Blocks {
		if _, dup := real[b.ID]; dup {
			continue
		}
		var blk dsmr.Block
		if i == 0 {
			blk = dsmr.Block{} // genesis as in the repository's tests: empty block, empty id
		} else {
			p, ok := real[b.Parent]
			if !ok {
				panic(fmt.Sprintf("block %d: parent %d not defined before it", b.ID, b.Parent))
			}
			certs := make([]*dsmr.ChunkCertificate, len(b.Certs))
			for j, c := range b.Certs {
				s := f.get(c)
				certs[j] = s.cert
				chunkToModel[s.cert.ChunkID] = c.ID
			}
			// explicit ids: BuildBlock's id derivation covers the certificates only, so blocks
			// re-including the same certificates would collide in the chain index
			bid := toID(b.ID)
			bid[0] = 0xb7
			blk, err = dsmr.NewBlockWithIDVerif(dsmr.BlockHeader{ParentID: p.GetID(), Height: b.Height, Timestamp: b.Ts}, certs, bid)
			if err != nil {
				panic(err)
			}
		}
		real[b.ID] = blk
		idx.blocks[blk.GetID()] = dsmr.NewValidityWindowBlock(blk)
	}
	genesis := real[sc.Blocks[0].ID]
	tvw, err := validitywindow.NewTimeValidityWindow[*dsmr.EmapChunkCertificate](ctx, logging.NoLog{}, trace.Noop, idx,
		dsmr.NewValidityWindowBlock(genesis), func(int64) int64 { return sc.W })
	if err != nil {
		panic(err)
	}
	node, err := dsmr.New[dsmrtest.Tx](logging.NoLog{}, f.nodeID, f.cs, f.pk, f.signer, storage,
		p2p.NoOpHandler{}, p2p.NoOpHandler{}, p2p.NoOpHandler{}, nil, nil, nil, genesis, tvw, rf)
	if err != nil {
		panic(err)
	}
	parentOf := map[uint64]uint64{}
	for _, b := range sc.Blocks {
		if _, ok := parentOf[b.ID]; !ok {
			parentOf[b.ID] = b.Parent
		}
	}
	return &session{ctx: ctx, node: node, storage: storage, real: real, parentOf: parentOf, chunkToModel: chunkToModel}
}

func (s *session) apply(op Op) Out {
	ctx, node, storage, real, parentOf, chunkToModel := s.ctx, s.node, s.storage, s.real, s.parentOf, s.chunkToModel
	{
		blk, ok := real[op.B]
		if !ok {
			return Out{K: "bad"}
		}
		switch op.K {
		case "verify":
			p, ok := real[parentOf[op.B]]
			if !ok {
				return Out{K: "v", Code: 8}
			}
			return Out{K: "v", Code: classify(node.Verify(ctx, p, blk))}
		case "accept":
			pending := map[ids.ID]bool{}
			for _, c := range storage.GatherChunkCerts() {
				pending[c.ChunkID] = true
			}
			okAll := true
			seen := map[ids.ID]bool{}
			for _, c := range blk.ChunkCerts {
				if !pending[c.ChunkID] || seen[c.ChunkID] {
					okAll = false
				}
				seen[c.ChunkID] = true
			}
			if !okAll {
				// Accept would try to fetch the chunk from peers forever: not run
				return Out{K: "a", Code: 2}
			}
			done := make(chan error, 1)
			go func() { _, err := node.Accept(ctx, blk); done <- err }()
			select {
			case err := <-done:
				if err != nil {
					return Out{K: "a", Code: 1}
				}
				return Out{K: "a", Code: 0}
			case <-time.After(20 * time.Second):
				s.dead = true // node state unusable
				return Out{K: "a", Code: 3}
			}
		case "build":
			built, err := node.BuildBlock(ctx, blk, op.Ts)
			o := Out{K: "b"}
			switch {
			case err == nil:
				for _, c := range built.ChunkCerts {
					o.Certs = append(o.Certs, chunkToModel[c.ChunkID])
				}
				sort.Slice(o.Certs, func(i, j int) bool { return o.Certs[i] < o.Certs[j] })
				o.VCode = classify(node.Verify(ctx, blk, built))
			case errors.Is(err, dsmr.ErrTimestampNotMonotonicallyIncreasing):
				o.Code = 1
			case errors.Is(err, dsmr.ErrNoAvailableChunkCerts):
				o.Code = 2
			default:
				o.Code = 3
			}
			return o
		default:
			return Out{K: "bad"}
		}
	}
}

// ---- Coq printing -------------------------------------------------------------------------------

func coqCerts(cs []Cert) string {
	s := make([]string, len(cs))
	for i, c := range cs {
		s[i] = emit.Pair(emit.N(c.ID), emit.Z(c.Expiry))
	}
	return emit.List("N * Z", s)
}

func coqCase(sc Scenario, outs []Out) string {
	bs := make([]string, len(sc.Blocks))
	for i, b := range sc.Blocks {
		bs[i] = emit.App("mkB", emit.N(b.ID), emit.N(b.Parent), emit.N(b.Height), emit.Z(b.Ts), coqCerts(b.Certs))
	}
	ops := make([]string, len(sc.Ops))
	for i, o := range sc.Ops {
		switch o.K {
		case "verify":
			ops[i] = emit.App("DVerify", emit.N(o.B))
		case "accept":
			ops[i] = emit.App("DAccept", emit.N(o.B))
		default:
			ops[i] = emit.App("DBuild", emit.N(o.B), emit.Z(o.Ts))
		}
	}
	os := make([]string, len(outs))
	for i, o := range outs {
		switch o.K {
		case "v":
			os[i] = emit.App("DOutV", emit.N(uint64(o.Code)))
		case "a":
			os[i] = emit.App("DOutA", emit.N(uint64(o.Code)))
		case "b":
			cs := make([]string, len(o.Certs))
			for j, c := range o.Certs {
				cs[j] = emit.N(c)
			}
			os[i] = emit.App("DOutB", emit.N(uint64(o.Code)), emit.List("N", cs), emit.N(uint64(o.VCode)))
		default:
			os[i] = "DOutBad"
		}
	}
	return emit.App("mk", emit.Z(sc.W), emit.List("block", bs), emit.N(sc.Blocks[0].ID), coqCerts(sc.Pending),
		emit.List("dop", ops), emit.List("dout", os))
}

// ---- signature of a failure, from what was observed ---------------------------------------------

func signature(sc Scenario, outs []Out) string {
	all := map[uint64]Block{}
	for _, b := range sc.Blocks {
		if _, ok := all[b.ID]; !ok {
			all[b.ID] = b
		}
	}
	onPath := func(start uint64, id uint64) bool {
		cur := start
		for i := 0; i < 1000; i++ {
			b, ok := all[cur]
			if !ok {
				return false
			}
			for _, c := range b.Certs {
				if c.ID == id {
					return true
				}
			}
			if b.Height == 0 {
				return false
			}
			cur = b.Parent
		}
		return false
	}
	for i, op := range sc.Ops {
		if i >= len(outs) {
			break
		}
		o := outs[i]
		switch op.K {
		case "verify":
			if o.Code != 0 {
				continue
			}
			b := all[op.B]
			seen := map[uint64]bool{}
			for _, c := range b.Certs {
				if c.Expiry < b.Ts {
					return "verify-accepted-expired-chunk-certificate"
				}
				if c.Expiry > b.Ts+sc.W {
					return "verify-accepted-chunk-certificate-beyond-window"
				}
				if seen[c.ID] {
					return "verify-accepted-chunk-twice-in-block"
				}
				seen[c.ID] = true
				if b.Height != 0 && onPath(b.Parent, c.ID) {
					return "verify-accepted-chunk-referenced-by-ancestor"
				}
			}
		case "accept":
			if o.Code == 1 || o.Code == 3 {
				return "accept-failed-or-hung"
			}
		case "build":
			if o.Code != 0 {
				continue
			}
			if o.VCode != 0 {
				return "builder-produced-block-that-verify-rejects"
			}
			exp := map[uint64]int64{}
			for _, c := range sc.Pending {
				exp[c.ID] = c.Expiry
			}
			for _, id := range o.Certs {
				if e := exp[id]; e < op.Ts || e > op.Ts+sc.W {
					return "builder-included-certificate-outside-interval"
				}
				if onPath(op.B, id) {
					return "builder-included-chunk-referenced-by-ancestor"
				}
			}
		}
	}
	return "dsmr-replay-protection-other"
}

func run(f *fixture, sc Scenario) emit.Case {
	return mkCase(sc, runScenario(f, sc))
}

func mkCase(sc Scenario, outs []Out) emit.Case {
	nV, nOK, nB := 0, 0, 0
	for i, o := range sc.Ops {
		if i >= len(outs) {
			break
		}
		if o.K == "verify" {
			nV++
			if outs[i].Code == 0 {
				nOK++
			}
		}
		if o.K == "build" && outs[i].Code == 0 {
			nB++
		}
	}
	return emit.Case{Coq: coqCase(sc, outs), JSON: mirror{sc, outs}, Nontrivial: nOK >= 1 && nOK < nV, Kind: sc.Kind, Sig: signature(sc, outs)}
}

// ---- generator ----------------------------------------------------------------------------------

func isAnc(all map[uint64]Block, a, b uint64) bool {
	for i := 0; i < 1000; i++ {
		if a == b {
			return true
		}
		blk, ok := all[b]
		if !ok || blk.Height == 0 {
			return false
		}
		b = blk.Parent
	}
	return false
}

func gen(f *fixture, r *rand.Rand) (Scenario, []Out) {
	sc := Scenario{W: int64(1 + r.Intn(5)), Kind: "engine"}
	wild := r.Intn(8) == 0
	if wild {
		sc.Kind = "wild"
	}
	nBlocks := 5 + r.Intn(7)
	maxStep := int64(1 + r.Intn(3))
	horizon := int64(nBlocks)*maxStep/2 + sc.W + 2
	nU := 4 + r.Intn(3)
	univ := make([]Cert, nU)
	for i := range univ {
		univ[i] = Cert{ID: uint64(100 + i), Expiry: 1 + r.Int63n(horizon)}
	}
	// a certificate not in storage (another producer's): Accept of a block holding it is skipped
	sc.Pending = append(sc.Pending, univ...)
	if r.Intn(4) == 0 {
		sc.Pending = sc.Pending[:len(sc.Pending)-1]
	}
	sc.Blocks = []Block{{ID: 0, Parent: 99}}
	all := map[uint64]Block{0: sc.Blocks[0]}
	anyCertP := 5
	if r.Intn(3) == 0 {
		anyCertP = 2
	}
	for i := 1; i <= nBlocks; i++ {
		var p Block
		if r.Intn(4) == 0 {
			p = sc.Blocks[r.Intn(len(sc.Blocks))]
		} else {
			lo := len(sc.Blocks) - 2
			if lo < 0 {
				lo = 0
			}
			p = sc.Blocks[lo+r.Intn(len(sc.Blocks)-lo)]
		}
		step := 1 + r.Int63n(maxStep)
		if wild && r.Intn(6) == 0 {
			step = 0
		}
		b := Block{ID: uint64(i), Parent: p.ID, Height: p.Height + 1, Ts: p.Ts + step}
		if wild && r.Intn(8) == 0 {
			b.Height = p.Height + uint64(r.Intn(3))
		}
		for _, u := range univ {
			in := u.Expiry >= b.Ts && u.Expiry <= b.Ts+sc.W
			if r.Intn(anyCertP) == 0 { // expired / future certificates on purpose
				in = true
			}
			if in && r.Intn(2) == 0 {
				b.Certs = append(b.Certs, u)
			}
		}
		r.Shuffle(len(b.Certs), func(i, j int) { b.Certs[i], b.Certs[j] = b.Certs[j], b.Certs[i] })
		if len(b.Certs) > 0 && r.Intn(12) == 0 {
			b.Certs = append(b.Certs, b.Certs[r.Intn(len(b.Certs))])
		}
		if len(b.Certs) == 0 && r.Intn(4) != 0 {
			b.Certs = []Cert{univ[r.Intn(nU)]}
		}
		sc.Blocks = append(sc.Blocks, b)
		all[b.ID] = b
	}
	// ops, tracked against the implementation's answers
	sess := newSession(f, sc)
	var outs []Out
	push := func(op Op) Out {
		sc.Ops = append(sc.Ops, op)
		if dbg := os.Getenv("VERIF_DEBUG_FILE"); dbg != "" {
			raw, _ := json.Marshal(sc)
			_ = os.WriteFile(dbg, raw, 0o644)
		}
		o := sess.apply(op)
		outs = append(outs, o)
		return o
	}
	nOps := 12 + r.Intn(20)
	verified := map[uint64]bool{}
	last := uint64(0)
	lag := 1 + r.Intn(4)
	for guard := 0; len(sc.Ops) < nOps && guard < 200 && !sess.dead; guard++ {
		if wild && r.Intn(3) == 0 {
			b := sc.Blocks[r.Intn(len(sc.Blocks))]
			switch r.Intn(3) {
			case 0:
				push(Op{K: "verify", B: b.ID})
			case 1:
				push(Op{K: "accept", B: b.ID})
			default:
				push(Op{K: "build", B: b.ID, Ts: b.Ts + int64(r.Intn(4))})
			}
			continue
		}
		var canVerify, canAccept, heads []uint64
		for _, b := range sc.Blocks {
			if b.Height == 0 {
				continue
			}
			if (verified[b.Parent] || b.Parent == last) && isAnc(all, last, b.Parent) && !verified[b.ID] {
				canVerify = append(canVerify, b.ID)
			}
			if verified[b.ID] && b.Parent == last {
				canAccept = append(canAccept, b.ID)
			}
			if verified[b.ID] && isAnc(all, last, b.ID) {
				heads = append(heads, b.ID)
			}
		}
		heads = append(heads, last)
		c := r.Intn(100)
		switch {
		case c < 45 && len(canVerify) > 0:
			b := canVerify[r.Intn(len(canVerify))]
			if push(Op{K: "verify", B: b}).Code == 0 {
				verified[b] = true
			}
		case c < 45+36/lag && len(canAccept) > 0:
			b := canAccept[r.Intn(len(canAccept))]
			if push(Op{K: "accept", B: b}).Code == 0 {
				last = b
			}
		case c < 85:
			p := heads[r.Intn(len(heads))]
			push(Op{K: "build", B: p, Ts: all[p].Ts + int64(r.Intn(int(sc.W)+3))})
		}
	}
	return sc, outs
}

func TestDriver(t *testing.T) {
	env := emit.GetEnv()
	if env.Out == "" {
		t.Skip("VERIF_OUT not set")
	}
	w, err := emit.NewWriter(env.Out)
	if err != nil {
		t.Fatal(err)
	}
	defer w.Close()
	f := newFixture()
	if env.Mode == "replay" {
		raws, err := emit.ReadReplay(env.Replay)
		if err != nil {
			t.Fatal(err)
		}
		for _, raw := range raws {
			var sc Scenario
			if err := json.Unmarshal(raw, &sc); err != nil {
				t.Fatal(err)
			}
			if len(sc.Blocks) == 0 {
				continue
			}
			if !strings.HasPrefix(sc.Kind, "replay") {
				sc.Kind = "replay:" + sc.Kind
			}
			_ = w.Put(run(f, sc))
		}
		return
	}
	r := env.Rand()
	for i := 0; i < env.N; i++ {
		_ = w.Put(mkCase(gen(f, r)))
	}
}
