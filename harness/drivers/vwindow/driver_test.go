// Driver for C09: the real validitywindow.TimeValidityWindow over a harness chain index.
//
// A scenario is a block tree (forks, items re-used across branches and heights), a window duration
// and a sequence of consensus-engine style calls (Verify / Accept / Reject / Restart / IsRepeat).
// Observables: error class of VerifyExpiryReplayProtection (0 nil, 1 ErrDuplicateContainer,
// 2 other), the completeness flag of the window rebuilt on restart, bitset + error flag of IsRepeat.
package vwindow

import (
	"context"
	"encoding/binary"
	"encoding/json"
	"errors"
	"fmt"
	"math/rand"
	"strings"
	"testing"
	"time"

	"github.com/ava-labs/avalanchego/database"
	"github.com/ava-labs/avalanchego/ids"
	"github.com/ava-labs/avalanchego/trace"
	"github.com/ava-labs/avalanchego/utils/logging"

	"github.com/ava-labs/hypersdk/internal/validitywindow"
	"github.com/ava-labs/hypersdk/verifharness/emit"
)

// ---- scenario (JSON mirror = replay input) ---------------------------------------------------

type Item struct {
	ID     uint64 `json:"id"`
	Expiry int64  `json:"e"`
}

type Block struct {
	ID     uint64 `json:"id"`
	Parent uint64 `json:"parent"`
	Height uint64 `json:"h"`
	Ts     int64  `json:"ts"`
	Items  []Item `json:"items"`
}

type Op struct {
	K     string `json:"k"` // verify | accept | reject | restart | isrepeat
	B     uint64 `json:"b"`
	Floor uint64 `json:"floor,omitempty"`
	Now   int64  `json:"now,omitempty"`
	Items []Item `json:"items,omitempty"`
	// Probe (isrepeat directly after an accept): the query is started from inside Accept, at the moment Accept
	// asks the block for its containers, on another goroutine. Accept must be atomic with respect to queries,
	// so the answer has to be the one of a query issued after Accept returned.
	Probe bool `json:"probe,omitempty"`
}

type Out struct {
	K    string `json:"k"` // v | u | r | i | bad
	Code int    `json:"code,omitempty"`
	Flag bool   `json:"flag,omitempty"`
	Bits []bool `json:"bits,omitempty"`
}

type Scenario struct {
	W       int64   `json:"w"`
	Genesis uint64  `json:"genesis"`
	Blocks  []Block `json:"blocks"`
	Ops     []Op    `json:"ops"`
	Kind    string  `json:"kind"`
}

type mirror struct {
	Scenario
	Outs []Out `json:"outs"`
}

// ---- harness types implementing the validity window's interfaces -------------------------------

func toID(n uint64) ids.ID {
	var id ids.ID
	binary.BigEndian.PutUint64(id[24:], n)
	id[0] = 0xb1
	return id
}

type container struct {
	id     ids.ID
	expiry int64
}

func (c container) GetID() ids.ID    { return c.id }
func (c container) GetExpiry() int64 { return c.expiry }

type execBlock struct {
	id, parent ids.ID
	height     uint64
	ts         int64
	items      []container
	set        map[ids.ID]struct{}
	hook       func() // called (once) by GetContainers while set; see Op.Probe
}

func (b *execBlock) GetID() ids.ID             { return b.id }
func (b *execBlock) GetParent() ids.ID         { return b.parent }
func (b *execBlock) GetTimestamp() int64       { return b.ts }
func (b *execBlock) GetHeight() uint64         { return b.height }
func (b *execBlock) GetBytes() []byte          { return b.id[:] }
func (b *execBlock) GetContainers() []container {
	if h := b.hook; h != nil {
		b.hook = nil
		h()
	}
	return b.items
}
func (b *execBlock) Contains(id ids.ID) bool   { _, ok := b.set[id]; return ok }
func (b *execBlock) String() string            { return fmt.Sprintf("blk(%d)", b.height) }

func mkItems(items []Item) []container {
	out := make([]container, len(items))
	for i, it := range items {
		out[i] = container{id: toID(it.ID), expiry: it.Expiry}
	}
	return out
}

func mkBlock(b Block) *execBlock {
	e := &execBlock{id: toID(b.ID), parent: toID(b.Parent), height: b.Height, ts: b.Ts, items: mkItems(b.Items), set: map[ids.ID]struct{}{}}
	for _, c := range e.items {
		e.set[c.id] = struct{}{}
	}
	return e
}

type chainIndex struct {
	blocks map[ids.ID]*execBlock
}

func (c *chainIndex) GetExecutionBlock(_ context.Context, id ids.ID) (validitywindow.ExecutionBlock[container], error) {
	if b, ok := c.blocks[id]; ok {
		return b, nil
	}
	return nil, database.ErrNotFound
}

// ---- running a scenario against the real code --------------------------------------------------

func newWindow(idx *chainIndex, head *execBlock, w int64) *validitywindow.TimeValidityWindow[container] {
	tvw, err := validitywindow.NewTimeValidityWindow[container](context.Background(), logging.NoLog{}, trace.Noop, idx, head,
		func(int64) int64 { return w })
	if err != nil {
		panic(err)
	}
	return tvw
}

func runScenario(sc Scenario) []Out {
	ctx := context.Background()
	all := map[uint64]*execBlock{}
	idx := &chainIndex{blocks: map[ids.ID]*execBlock{}}
	for _, b := range sc.Blocks {
		if _, dup := all[b.ID]; dup {
			continue // first definition wins (as in tree_of)
		}
		e := mkBlock(b)
		all[b.ID] = e
		idx.blocks[e.id] = e
	}
	g, ok := all[sc.Genesis]
	if !ok {
		return nil
	}
	tvw := newWindow(idx, g, sc.W)
	floor := uint64(0)
	outs := make([]Out, 0, len(sc.Ops))
	skip := false
	for i, op := range sc.Ops {
		if skip { // executed as the probe of the preceding accept
			skip = false
			continue
		}
		blk, ok := all[op.B]
		if !ok && op.K != "reject" {
			outs = append(outs, Out{K: "bad"})
			continue
		}
		switch op.K {
		case "verify":
			err := tvw.VerifyExpiryReplayProtection(ctx, blk)
			code := 0
			switch {
			case err == nil:
			case errors.Is(err, validitywindow.ErrDuplicateContainer):
				code = 1
			default:
				code = 2
			}
			outs = append(outs, Out{K: "v", Code: code})
		case "accept":
			if i+1 < len(sc.Ops) && sc.Ops[i+1].Probe && sc.Ops[i+1].K == "isrepeat" {
				if pb, ok := all[sc.Ops[i+1].B]; ok {
					q := sc.Ops[i+1]
					res := make(chan Out, 1)
					blk.hook = func() {
						go func() {
							items := mkItems(q.Items)
							bits, err := tvw.IsRepeat(ctx, pb, q.Now, items)
							o := Out{K: "i", Flag: err != nil, Bits: make([]bool, len(items))}
							for j := range items {
								o.Bits[j] = bits.Contains(j)
							}
							res <- o
						}()
						// give the query the chance to run inside the gap, if there is one
						select {
						case o := <-res:
							res <- o
						case <-time.After(15 * time.Millisecond):
						}
					}
					tvw.Accept(blk)
					blk.hook = nil
					outs = append(outs, Out{K: "u"})
					select {
					case o := <-res:
						outs = append(outs, o)
					case <-time.After(10 * time.Second):
						outs = append(outs, Out{K: "bad"})
					}
					skip = true
					continue
				}
			}
			tvw.Accept(blk)
			outs = append(outs, Out{K: "u"})
		case "reject":
			outs = append(outs, Out{K: "u"})
		case "restart":
			if op.Floor > floor {
				floor = op.Floor
			}
			for id, b := range idx.blocks {
				if b.height < floor {
					delete(idx.blocks, id)
				}
			}
			tvw = newWindow(idx, blk, sc.W)
			// NewTimeValidityWindow drops populate's completeness flag; Complete on a throw-away
			// second window re-runs the same walk and reports it (the walk does not depend on the
			// window state), leaving the window under test untouched.
			outs = append(outs, Out{K: "r", Flag: newWindow(idx, blk, sc.W).Complete(ctx, blk)})
		case "isrepeat":
			items := mkItems(op.Items)
			bits, err := tvw.IsRepeat(ctx, blk, op.Now, items)
			o := Out{K: "i", Flag: err != nil, Bits: make([]bool, len(items))}
			for i := range items {
				o.Bits[i] = bits.Contains(i)
			}
			outs = append(outs, o)
		default:
			outs = append(outs, Out{K: "bad"})
		}
	}
	return outs
}

// ---- Coq printing ------------------------------------------------------------------------------

func coqItems(items []Item) string {
	s := make([]string, len(items))
	for i, it := range items {
		s[i] = emit.Pair(emit.N(it.ID), emit.Z(it.Expiry))
	}
	return emit.List("N * Z", s)
}

func coqCase(sc Scenario, outs []Out) string {
	bs := make([]string, len(sc.Blocks))
	for i, b := range sc.Blocks {
		bs[i] = emit.App("mkB", emit.N(b.ID), emit.N(b.Parent), emit.N(b.Height), emit.Z(b.Ts), coqItems(b.Items))
	}
	ops := make([]string, len(sc.Ops))
	for i, o := range sc.Ops {
		switch o.K {
		case "verify":
			ops[i] = emit.App("OVerify", emit.N(o.B))
		case "accept":
			ops[i] = emit.App("OAccept", emit.N(o.B))
		case "reject":
			ops[i] = emit.App("OReject", emit.N(o.B))
		case "restart":
			ops[i] = emit.App("ORestart", emit.N(o.B), emit.N(o.Floor))
		default:
			ops[i] = emit.App("OIsRepeat", emit.N(o.B), emit.Z(o.Now), coqItems(o.Items))
		}
	}
	os := make([]string, len(outs))
	for i, o := range outs {
		switch o.K {
		case "v":
			os[i] = emit.App("OutV", emit.N(uint64(o.Code)))
		case "u":
			os[i] = "OutUnit"
		case "r":
			os[i] = emit.App("OutR", emit.Bool(o.Flag))
		case "i":
			bits := make([]string, len(o.Bits))
			for j, b := range o.Bits {
				bits[j] = emit.Bool(b)
			}
			os[i] = emit.App("OutI", emit.List("bool", bits), emit.Bool(o.Flag))
		default:
			os[i] = "OutBad"
		}
	}
	return emit.App("mk", emit.Z(sc.W), emit.List("block", bs), emit.N(sc.Genesis), emit.List("op", ops), emit.List("out", os))
}

// ---- the property evaluated in Go on the implementation's answers (only to compute sig) --------

type engine struct {
	verified map[uint64]bool
	last     uint64
	ever     []uint64
}

func isAnc(all map[uint64]Block, a, b uint64) bool {
	for i := 0; i < 1000; i++ {
		if a == b {
			return true
		}
		blk, ok := all[b]
		if !ok || blk.Height == 0 {
			return false
		}
		b = blk.Parent
	}
	return false
}

// returns (contract respected, first repeated item on a verified path or nil)
func propertyInGo(sc Scenario, outs []Out) (bool, *Item) {
	all := map[uint64]Block{}
	for _, b := range sc.Blocks {
		if _, dup := all[b.ID]; !dup {
			all[b.ID] = b
		}
	}
	e := engine{verified: map[uint64]bool{}, last: sc.Genesis, ever: []uint64{sc.Genesis}}
	if len(outs) != len(sc.Ops) {
		return false, nil
	}
	for i, op := range sc.Ops {
		blk, ok := all[op.B]
		switch op.K {
		case "verify":
			if !ok || blk.Height == 0 || !(e.verified[blk.Parent] || blk.Parent == e.last) || !isAnc(all, e.last, blk.Parent) {
				return false, nil
			}
			if outs[i].Code == 0 {
				e.verified[op.B] = true
				e.ever = append(e.ever, op.B)
			}
		case "accept":
			if !ok || !e.verified[op.B] || blk.Parent != e.last {
				return false, nil
			}
			e.last = op.B
		case "reject":
			if !e.verified[op.B] {
				return false, nil
			}
			delete(e.verified, op.B)
		case "restart":
			if !ok || !outs[i].Flag || !(e.verified[op.B] || op.B == e.last) || !isAnc(all, e.last, op.B) {
				return false, nil
			}
			e.verified = map[uint64]bool{}
			e.last = op.B
		case "isrepeat":
			if !ok {
				return false, nil
			}
		}
	}
	for _, v := range e.ever {
		seen := map[uint64]bool{}
		cur := v
		for i := 0; i < 1000; i++ {
			blk, ok := all[cur]
			if !ok {
				break
			}
			for _, it := range blk.Items {
				if seen[it.ID] {
					it := it
					return true, &it
				}
				seen[it.ID] = true
			}
			if blk.Height == 0 {
				break
			}
			cur = blk.Parent
		}
	}
	return true, nil
}

func treeHypotheses(sc Scenario) bool {
	all := map[uint64]Block{}
	for _, b := range sc.Blocks {
		if _, dup := all[b.ID]; dup {
			return false
		}
		all[b.ID] = b
	}
	exp := map[uint64]int64{}
	for _, b := range sc.Blocks {
		if b.ID == sc.Genesis {
			if b.Height != 0 {
				return false
			}
		} else {
			p, ok := all[b.Parent]
			if !ok || b.Height == 0 || b.Height != p.Height+1 || p.Ts > b.Ts {
				return false
			}
		}
		if b.Ts < 0 {
			return false
		}
		for _, it := range b.Items {
			if it.Expiry < b.Ts || it.Expiry > b.Ts+sc.W {
				return false
			}
			if e, ok := exp[it.ID]; ok && e != it.Expiry {
				return false
			}
			exp[it.ID] = it.Expiry
		}
	}
	return true
}

func run(sc Scenario) emit.Case {
	outs := runScenario(sc)
	sig := ""
	contract, rep := false, (*Item)(nil)
	hyp := treeHypotheses(sc)
	if hyp {
		contract, rep = propertyInGo(sc, outs)
	}
	if rep != nil {
		if rep.Expiry == 0 {
			sig = "repeat-of-item-with-expiry-0-after-accept"
		} else {
			sig = "item-repeated-on-verified-chain"
		}
	}
	nVerify, nOK := 0, 0
	for i, o := range sc.Ops {
		if o.K == "verify" && i < len(outs) {
			nVerify++
			if outs[i].Code == 0 {
				nOK++
			}
		}
	}
	kind := sc.Kind
	if !hyp {
		kind += "/hyp-off"
	} else if !contract {
		kind += "/contract-off"
	}
	return emit.Case{Coq: coqCase(sc, outs), JSON: mirror{sc, outs}, Nontrivial: nVerify >= 2 && nOK >= 1 && nOK < nVerify, Kind: kind, Sig: sig}
}

// ---- generators --------------------------------------------------------------------------------

type genState struct {
	r    *rand.Rand
	sc   Scenario
	univ []Item
	kids map[uint64][]uint64
	byID map[uint64]Block
}

func (g *genState) pickItems(ts int64, wild bool) []Item {
	var items []Item
	for _, u := range g.univ {
		in := u.Expiry >= ts && u.Expiry <= ts+g.sc.W
		if wild && g.r.Intn(6) == 0 {
			in = !in
		}
		if in && g.r.Intn(2) == 0 {
			items = append(items, u)
		}
	}
	g.r.Shuffle(len(items), func(i, j int) { items[i], items[j] = items[j], items[i] })
	if len(items) > 0 && g.r.Intn(12) == 0 { // in-block duplicate
		items = append(items, items[g.r.Intn(len(items))])
	}
	return items
}

func genTree(r *rand.Rand, kind string) *genState {
	g := &genState{r: r, kids: map[uint64][]uint64{}, byID: map[uint64]Block{}}
	g.sc.Kind = kind
	g.sc.W = int64(1 + r.Intn(5))
	zero := kind == "zero"
	wild := kind == "wilditems"
	nBlocks := 5 + r.Intn(8)
	maxStep := int64(1 + r.Intn(3))
	// universe of ~6 item ids with fixed expiries spread over the time range of the tree
	horizon := int64(nBlocks)*maxStep/2 + g.sc.W
	nU := 4 + r.Intn(3)
	for i := 0; i < nU; i++ {
		e := 1 + r.Int63n(horizon)
		if zero && i < 2 {
			e = 0
		}
		g.univ = append(g.univ, Item{ID: uint64(100 + i), Expiry: e})
	}
	gen := Block{ID: 0, Parent: 999, Height: 0, Ts: 0}
	g.sc.Genesis = 0
	g.sc.Blocks = append(g.sc.Blocks, gen)
	g.byID[0] = gen
	for i := 1; i <= nBlocks; i++ {
		// parent: biased to the most recent blocks (deep chains with forks)
		var p Block
		if r.Intn(4) == 0 {
			p = g.sc.Blocks[r.Intn(len(g.sc.Blocks))]
		} else {
			lo := len(g.sc.Blocks) - 2
			if lo < 0 {
				lo = 0
			}
			p = g.sc.Blocks[lo+r.Intn(len(g.sc.Blocks)-lo)]
		}
		step := r.Int63n(maxStep + 1)
		if p.Height == 0 && step == 0 && !zero && !wild {
			step = 1 // non-genesis blocks have a positive timestamp unless the scenario targets F-23
		}
		if zero && p.Ts == 0 && r.Intn(2) == 0 {
			step = 0
		}
		b := Block{ID: uint64(i), Parent: p.ID, Height: p.Height + 1, Ts: p.Ts + step}
		if wild && r.Intn(10) == 0 && b.Ts > 0 {
			b.Ts-- // timestamp going backwards
		}
		b.Items = g.pickItems(b.Ts, wild)
		g.sc.Blocks = append(g.sc.Blocks, b)
		g.byID[b.ID] = b
		g.kids[p.ID] = append(g.kids[p.ID], b.ID)
	}
	if wild && r.Intn(3) == 0 { // one id with two different expiries
		i := 1 + r.Intn(nBlocks)
		b := &g.sc.Blocks[i]
		u := g.univ[r.Intn(len(g.univ))]
		b.Items = append(b.Items, Item{ID: u.ID, Expiry: u.Expiry + 1})
		g.byID[b.ID] = *b
	}
	return g
}

func (g *genState) randItems() []Item {
	var items []Item
	for _, u := range g.univ {
		if g.r.Intn(3) != 0 {
			items = append(items, u)
		}
	}
	if g.r.Intn(5) == 0 {
		items = append(items, Item{ID: 999, Expiry: 5})
	}
	if len(items) > 0 && g.r.Intn(6) == 0 {
		items = append(items, items[0])
	}
	g.r.Shuffle(len(items), func(i, j int) { items[i], items[j] = items[j], items[i] })
	return items
}

// engine-style op sequence; the generator tracks verified/last with the real implementation's
// answers by running prefixes (cheap: scenarios are tiny)
func genOps(g *genState, wildOps bool) {
	r := g.r
	nOps := 12 + r.Intn(25)
	all := map[uint64]Block{}
	for _, b := range g.sc.Blocks {
		all[b.ID] = b
	}
	verified := map[uint64]bool{}
	last := g.sc.Genesis
	acceptLag := 1 + r.Intn(4) // how reluctant Accept is: processing chains grow deeper
	for len(g.sc.Ops) < nOps {
		if wildOps && r.Intn(3) == 0 {
			b := g.sc.Blocks[r.Intn(len(g.sc.Blocks))]
			switch r.Intn(4) {
			case 0:
				g.sc.Ops = append(g.sc.Ops, Op{K: "verify", B: b.ID})
			case 1:
				g.sc.Ops = append(g.sc.Ops, Op{K: "accept", B: b.ID})
			case 2:
				g.sc.Ops = append(g.sc.Ops, Op{K: "restart", B: b.ID, Floor: uint64(r.Intn(int(b.Height) + 2))})
			default:
				g.sc.Ops = append(g.sc.Ops, Op{K: "isrepeat", B: b.ID, Now: b.Ts + int64(r.Intn(4)), Items: g.randItems()})
			}
			continue
		}
		// candidates
		var canVerify, canAccept, heads []uint64
		for _, b := range g.sc.Blocks {
			if b.Height == 0 {
				continue
			}
			if (verified[b.Parent] || b.Parent == last) && isAnc(all, last, b.Parent) && !verified[b.ID] {
				canVerify = append(canVerify, b.ID)
			}
			if verified[b.ID] && b.Parent == last {
				canAccept = append(canAccept, b.ID)
			}
			if verified[b.ID] && isAnc(all, last, b.ID) {
				heads = append(heads, b.ID)
			}
		}
		heads = append(heads, last)
		c := r.Intn(100)
		switch {
		case c < 45 && len(canVerify) > 0:
			b := canVerify[r.Intn(len(canVerify))]
			g.sc.Ops = append(g.sc.Ops, Op{K: "verify", B: b})
			outs := runScenario(g.sc)
			if outs[len(outs)-1].Code == 0 {
				verified[b] = true
			}
		case c < 45+40/acceptLag && len(canAccept) > 0:
			b := canAccept[r.Intn(len(canAccept))]
			g.sc.Ops = append(g.sc.Ops, Op{K: "accept", B: b})
			last = b
		case c < 75:
			p := heads[r.Intn(len(heads))]
			now := all[p].Ts + int64(r.Intn(4))
			g.sc.Ops = append(g.sc.Ops, Op{K: "isrepeat", B: p, Now: now, Items: g.randItems()})
		case c < 82 && len(verified) > 0:
			// reject a verified block that is not on the way to any deeper verified block we still need
			var vs []uint64
			for _, b := range g.sc.Blocks {
				if verified[b.ID] && !isAnc(all, b.ID, last) {
					vs = append(vs, b.ID)
				}
			}
			if len(vs) == 0 {
				continue
			}
			b := vs[r.Intn(len(vs))]
			g.sc.Ops = append(g.sc.Ops, Op{K: "reject", B: b})
			delete(verified, b)
		case c < 92:
			h := heads[r.Intn(len(heads))]
			hb := all[h]
			// floor: usually low enough for a complete window, sometimes too high
			fl := uint64(0)
			switch r.Intn(4) {
			case 0:
				fl = uint64(r.Intn(int(hb.Height) + 2))
			case 1:
				// first height whose block is below the window, walking up from there keeps completeness
				cur := hb
				for cur.Height > 0 && cur.Ts >= maxI(0, hb.Ts-g.sc.W) {
					cur = all[cur.Parent]
				}
				fl = cur.Height
				if r.Intn(3) == 0 {
					fl++
				}
			}
			g.sc.Ops = append(g.sc.Ops, Op{K: "restart", B: h, Floor: fl})
			verified = map[uint64]bool{}
			last = h
		default:
			if len(canVerify) == 0 && len(canAccept) == 0 {
				// nothing left to do in this tree except queries
				p := heads[r.Intn(len(heads))]
				g.sc.Ops = append(g.sc.Ops, Op{K: "isrepeat", B: p, Now: all[p].Ts + int64(r.Intn(3)), Items: g.randItems()})
			}
		}
	}
}

func maxI(a, b int64) int64 {
	if a > b {
		return a
	}
	return b
}

func gen(r *rand.Rand) Scenario {
	kind := "engine"
	switch c := r.Intn(100); {
	case c < 6:
		kind = "zero" // expiry 0 / timestamp 0 corner (F-23)
	case c < 16:
		kind = "wilditems" // items outside their interval, ids with two expiries, timestamps going back
	case c < 26:
		kind = "wildops" // calls that ignore the engine contract
	}
	g := genTree(r, kind)
	genOps(g, kind == "wildops")
	addProbes(g)
	return g.sc
}

// addProbes inserts, after about half of the Accept calls, an IsRepeat query on the accepted block that the driver
// issues from inside Accept (Op.Probe): the items of the accepted block plus random ones, at a time inside the window.
func addProbes(g *genState) {
	all := map[uint64]Block{}
	for _, b := range g.sc.Blocks {
		if _, dup := all[b.ID]; !dup {
			all[b.ID] = b
		}
	}
	var ops []Op
	for _, o := range g.sc.Ops {
		ops = append(ops, o)
		b, ok := all[o.B]
		if o.K != "accept" || !ok || g.r.Intn(2) == 0 {
			continue
		}
		items := append([]Item{}, b.Items...)
		items = append(items, g.randItems()...)
		if len(items) > 6 {
			items = items[:6]
		}
		ops = append(ops, Op{K: "isrepeat", B: b.ID, Now: b.Ts + int64(g.r.Intn(3)), Items: items, Probe: true})
	}
	g.sc.Ops = ops
}

// exhaustive-ish enumeration for the thorough tier: a chain of 4 blocks plus one fork block, one item,
// all inclusion patterns, all positions of a single Accept prefix and an optional restart
func enumerate(put func(Scenario)) {
	for w := int64(1); w <= 3; w++ {
		for e := int64(1); e <= 5; e++ {
			for mask := 0; mask < 32; mask++ {
				for acc := 0; acc <= 3; acc++ {
					for rs := 0; rs < 2; rs++ {
						it := Item{ID: 100, Expiry: e}
						sc := Scenario{W: w, Genesis: 0, Kind: "enum"}
						sc.Blocks = []Block{{ID: 0, Parent: 999}}
						ts := []int64{0, 1, 2, 4, 5, 3}
						parents := []uint64{0, 0, 1, 2, 3, 2}
						heights := []uint64{0, 1, 2, 3, 4, 3}
						for i := 1; i <= 5; i++ {
							b := Block{ID: uint64(i), Parent: parents[i], Height: heights[i], Ts: ts[i]}
							if mask&(1<<(i-1)) != 0 {
								b.Items = []Item{it}
							}
							sc.Blocks = append(sc.Blocks, b)
						}
						for i := 1; i <= 4; i++ {
							sc.Ops = append(sc.Ops, Op{K: "verify", B: uint64(i)})
							if i == 3 {
								sc.Ops = append(sc.Ops, Op{K: "verify", B: 5})
							}
						}
						for i := 1; i <= acc; i++ {
							sc.Ops = append(sc.Ops, Op{K: "accept", B: uint64(i)})
						}
						if rs == 1 {
							sc.Ops = append(sc.Ops, Op{K: "restart", B: uint64(acc), Floor: 0})
						}
						for i := acc + 1; i <= 4; i++ {
							sc.Ops = append(sc.Ops, Op{K: "verify", B: uint64(i)})
						}
						sc.Ops = append(sc.Ops, Op{K: "verify", B: 5})
						sc.Ops = append(sc.Ops, Op{K: "isrepeat", B: uint64(acc), Now: ts[acc] + 1, Items: []Item{it}})
						put(sc)
					}
				}
			}
		}
	}
}

func TestDriver(t *testing.T) {
	env := emit.GetEnv()
	if env.Out == "" {
		t.Skip("VERIF_OUT not set")
	}
	w, err := emit.NewWriter(env.Out)
	if err != nil {
		t.Fatal(err)
	}
	defer w.Close()
	if env.Mode == "replay" {
		raws, err := emit.ReadReplay(env.Replay)
		if err != nil {
			t.Fatal(err)
		}
		for _, raw := range raws {
			var sc Scenario
			if err := json.Unmarshal(raw, &sc); err != nil {
				t.Fatal(err)
			}
			if !strings.HasPrefix(sc.Kind, "replay") {
				sc.Kind = "replay:" + sc.Kind
			}
			_ = w.Put(run(sc))
		}
		return
	}
	if env.Tier == "thorough" {
		enumerate(func(sc Scenario) { _ = w.Put(run(sc)) })
	}
	r := env.Rand()
	for i := 0; i < env.N; i++ {
		_ = w.Put(run(gen(r)))
	}
}
