// Driver for C10: the static pre-execution checks of a transaction.
//
// Drives the real validitywindow.VerifyTimestamp (kind 0), chain.Base.Execute (kind 1),
// chain.Transaction.PreExecute (kind 2, fee/balance made to always pass) and
// chain.PreExecutor.PreExecute (kind 3, mempool admission, reads time.Now() itself and is therefore
// bracketed by two clock readings) and reports the error class.
package txstatic

import (
	"context"
	"encoding/binary"
	"encoding/json"
	"errors"
	"math"
	"math/rand"
	"testing"
	"time"

	"github.com/ava-labs/avalanchego/ids"

	"github.com/ava-labs/hypersdk/chain"
	"github.com/ava-labs/hypersdk/chain/chaintest"
	"github.com/ava-labs/hypersdk/codec"
	"github.com/ava-labs/hypersdk/genesis"
	"github.com/ava-labs/hypersdk/internal/validitywindow"
	"github.com/ava-labs/hypersdk/internal/validitywindow/validitywindowtest"
	"github.com/ava-labs/hypersdk/state"
	"github.com/ava-labs/hypersdk/state/balance"
	"github.com/ava-labs/hypersdk/state/metadata"
	"github.com/ava-labs/hypersdk/verifharness/emit"

	internalfees "github.com/ava-labs/hypersdk/internal/fees"
)

const (
	kindVT    = 0
	kindBase  = 1
	kindPre   = 2
	kindAdmit = 3
)

// input is the replayable part of a case. For kind 3 (admission) E and the non-sentinel range bounds are
// offsets in ms relative to the clock reading taken just before the call (Rel = true); the expiry is
// floor-aligned to a second after adding the offset, plus Mis ms.
type input struct {
	Kind    int        `json:"kind"`
	E       int64      `json:"e"`
	T       int64      `json:"t"`
	Div     int64      `json:"div"`
	W       int64      `json:"w"`
	ChainTx []byte     `json:"chain_tx"`
	ChainR  []byte     `json:"chain_r"`
	Max     uint8      `json:"max"`
	Actions [][2]int64 `json:"actions"`
	Auth    [2]int64   `json:"auth"`
	Rel     bool       `json:"rel,omitempty"`
	Mis     int64      `json:"mis,omitempty"`
	// Prime (admission only): the PreExecutor is not fresh. It admitted another transaction 25 ms before a second
	// boundary B; the measured call is made just after B with expiry B (E = 0: expired by now, not yet expired at the
	// time of the earlier call) or B + W (E = 1: acceptable now, too far ahead at the time of the earlier call).
	Prime bool `json:"prime,omitempty"`
}

type mirror struct {
	input
	AbsE  int64  `json:"abs_e"`
	T2    int64  `json:"t2"`
	Impl  int    `json:"impl"`
	Error string `json:"error,omitempty"`
}

func classify(err error) int {
	switch {
	case err == nil:
		return 0
	case errors.Is(err, chain.ErrInvalidChainID):
		return 1
	case errors.Is(err, validitywindow.ErrMisalignedTime):
		return 2
	case errors.Is(err, validitywindow.ErrTimestampExpired):
		return 3
	case errors.Is(err, validitywindow.ErrFutureTimestamp):
		return 4
	case errors.Is(err, chain.ErrTooManyActions):
		return 5
	case errors.Is(err, chain.ErrActionNotActivated):
		return 6
	case errors.Is(err, chain.ErrAuthNotActivated):
		return 7
	default:
		return 99
	}
}

var classNames = map[int]string{0: "ok", 1: "chainid", 2: "misaligned", 3: "expired", 4: "future", 5: "toomany", 6: "action-na", 7: "auth-na", 99: "other"}

func toID(b []byte) ids.ID {
	var id ids.ID
	copy(id[:], b)
	return id
}

var (
	bh         = balance.NewPrefixBalanceHandler([]byte{0})
	mdm        = metadata.NewDefaultManager()
	sponsor    = codec.Address{1, 2, 3}
	balanceKey = string(bh.BalanceKey(sponsor))
	feeKey     = string(chain.FeeKey(mdm.FeePrefix()))
)

func rulesOf(in input) *genesis.Rules {
	r := genesis.NewDefaultRules()
	r.ChainID = toID(in.ChainR)
	r.ValidityWindow = in.W
	r.MaxActionsPerTx = in.Max
	return r
}

func buildTx(in input, e int64, acts [][2]int64, auth [2]int64) *chain.Transaction {
	actions := make([]chain.Action, len(acts))
	for i, a := range acts {
		actions[i] = &chaintest.TestAction{
			NumComputeUnits:              1,
			SpecifiedStateKeys:           []string{},
			SpecifiedStateKeyPermissions: []state.Permissions{},
			ReadKeys:                     [][]byte{},
			WriteKeys:                    [][]byte{},
			WriteValues:                  [][]byte{},
			Nonce:                        uint64(i),
			Start:                        a[0],
			End:                          a[1],
		}
	}
	au := &chaintest.TestAuth{NumComputeUnits: 1, ActorAddress: sponsor, SponsorAddress: sponsor, Start: auth[0], End: auth[1]}
	tx, err := chain.NewTransaction(chain.Base{Timestamp: e, ChainID: toID(in.ChainTx), MaxFee: 1}, actions, au)
	if err != nil {
		panic(err)
	}
	return tx
}

func relAbs(now int64, v int64) int64 {
	if v == -1 {
		return -1
	}
	return now + v
}

func run(in input) emit.Case {
	ctx := context.Background()
	var (
		err     error
		t, t2   = in.T, int64(0)
		e       = in.E
		acts    = in.Actions
		auth    = in.Auth
		storage = state.ImmutableStorage(map[string][]byte{
			feeKey:     {},
			balanceKey: binary.BigEndian.AppendUint64(nil, math.MaxUint64),
		})
	)
	switch in.Kind {
	case kindVT:
		err = validitywindow.VerifyTimestamp(in.E, in.T, in.Div, in.W)
	case kindBase:
		b := chain.Base{Timestamp: in.E, ChainID: toID(in.ChainTx), MaxFee: 1}
		err = b.Execute(rulesOf(in), in.T)
	case kindPre:
		tx := buildTx(in, in.E, in.Actions, in.Auth)
		err = tx.PreExecute(ctx, internalfees.NewManager(nil), bh, rulesOf(in), storage, in.T)
	case kindAdmit:
		rf := &genesis.ImmutableRuleFactory{Rules: rulesOf(in)}
		pe := chain.NewPreExecutor(rf, &validitywindowtest.MockTimeValidityWindow[*chain.Transaction]{}, mdm, bh)
		var boundary int64
		if in.Prime {
			now := time.Now().UnixMilli()
			boundary = (now/1000 + 1) * 1000
			if boundary-now < 60 {
				boundary += 1000
			}
			time.Sleep(time.Duration(boundary-25-now) * time.Millisecond)
			none := make([][2]int64, len(in.Actions))
			for i := range none {
				none[i] = [2]int64{-1, -1}
			}
			_ = pe.PreExecute(ctx, nil, storage, buildTx(in, boundary+10000, none, [2]int64{-1, -1}))
			if d := boundary + 3 - time.Now().UnixMilli(); d > 0 {
				time.Sleep(time.Duration(d) * time.Millisecond)
			}
		}
		t = time.Now().UnixMilli()
		if in.Rel {
			e = t + in.E
			e = e - e%1000 + in.Mis
			if in.Prime {
				e = boundary + in.E*in.W
			}
			acts = make([][2]int64, len(in.Actions))
			for i, a := range in.Actions {
				acts[i] = [2]int64{relAbs(t, a[0]), relAbs(t, a[1])}
			}
			auth = [2]int64{relAbs(t, in.Auth[0]), relAbs(t, in.Auth[1])}
		}
		tx := buildTx(in, e, acts, auth)
		t = time.Now().UnixMilli()
		err = pe.PreExecute(ctx, nil, storage, tx)
		t2 = time.Now().UnixMilli()
	}
	impl := classify(err)
	div := in.Div
	if in.Kind != kindVT {
		div = 1000
	}
	items := make([]string, len(acts))
	for i, a := range acts {
		items[i] = emit.Pair(emit.Z(a[0]), emit.Z(a[1]))
	}
	coq := emit.App("mk", emit.N(uint64(in.Kind)), emit.Z(e), emit.Z(t), emit.Z(t2), emit.Z(div), emit.Z(in.W),
		emit.Bytes(in.ChainTx), emit.Bytes(in.ChainR), emit.N(uint64(in.Max)),
		emit.List("Z * Z", items), emit.Pair(emit.Z(auth[0]), emit.Z(auth[1])), emit.N(uint64(impl)))
	m := mirror{input: in, AbsE: e, T2: t2, Impl: impl}
	if err != nil {
		m.Error = err.Error()
		if len(m.Error) > 160 {
			m.Error = m.Error[:160]
		}
	}
	kinds := []string{"verify-timestamp", "base-execute", "pre-execute", "admission"}
	return emit.Case{
		Coq: coq, JSON: m,
		Nontrivial: true,
		Kind:       kinds[in.Kind] + ":" + classNames[impl],
		Sig:        "static-check-" + kinds[in.Kind] + "-wrong-" + classNames[impl],
	}
}

// ---- generators ------------------------------------------------------------------------------

const (
	maxI64     = math.MaxInt64
	minI64     = math.MinInt64
	maxAligned = int64(9223372036854775000)
	minAligned = int64(-9223372036854775000)
)

func pick(r *rand.Rand, xs []int64) int64 { return xs[r.Intn(len(xs))] }

func floor1000(x int64) int64 {
	m := x % 1000
	if m < 0 {
		m += 1000
	}
	return x - m // may wrap near MinInt64; that is fine, it is just another test value
}

func genTriple(r *rand.Rand) (e, t, w int64) {
	ts := []int64{0, 1000, 5000, 1_700_000_000_000, 1_700_000_000_123, 999, -5000, -1,
		maxAligned - 60000, maxAligned, maxI64, maxI64 - 1000, minI64, minAligned}
	ws := []int64{0, 1000, 60000, 60000, 60000, 59999, 1, 10000, maxI64, maxAligned, maxAligned - 1_700_000_000_000, -1000}
	t = pick(r, ts)
	if r.Intn(4) == 0 {
		t = int64(r.Intn(100)) * 1000
	}
	w = pick(r, ws)
	es := []int64{t - 1000, t - 1, t, t + 1, t + 1000, t + w - 1000, t + w - 1, t + w, t + w + 1, t + w + 1000,
		floor1000(t), floor1000(t) + 1000, floor1000(t + w), floor1000(t+w) + 1000, floor1000(t+w) - 1000,
		0, -1000, -1, 1, maxI64, maxAligned, minI64, minAligned,
		floor1000(t + w/2), t + w/2}
	e = pick(r, es)
	return
}

func chainPair(r *rand.Rand) (tx, rl []byte) {
	rl = make([]byte, 32)
	for i := range rl {
		rl[i] = byte(r.Intn(3))
	}
	if r.Intn(6) == 0 {
		rl = make([]byte, 32) // the zero id
	}
	tx = append([]byte{}, rl...)
	switch r.Intn(8) {
	case 0:
		tx[31] ^= 1
	case 1:
		tx[0] ^= 0x80
	case 2:
		tx = make([]byte, 32)
		tx[15] = 1
	}
	return
}

// bound relative to t for sentinel / boundary coverage
func genBound(r *rand.Rand, t int64, startSide bool) int64 {
	c := []int64{-1, -1, -1, t - 1, t, t + 1, 0, 0, -2, minI64, maxI64, t - 1000, t + 1000}
	_ = startSide
	return pick(r, c)
}

func passingRange(r *rand.Rand, t int64) [2]int64 {
	starts := []int64{-1, -1, t, t - 1, -2, 0}
	ends := []int64{-1, -1, t, t + 1, -2, maxI64}
	s, e := pick(r, starts), pick(r, ends)
	if s > t && s >= 0 {
		s = -1
	}
	if e >= 0 && e < t {
		e = -1
	}
	return [2]int64{s, e}
}

func gen(r *rand.Rand) input {
	in := input{Div: 1000}
	k := r.Intn(10)
	switch {
	case k < 2:
		in.Kind = kindVT
	case k < 4:
		in.Kind = kindBase
	case k < 9:
		in.Kind = kindPre
	default:
		in.Kind = kindAdmit
	}
	if in.Kind == kindAdmit {
		return genAdmit(r)
	}
	in.E, in.T, in.W = genTriple(r)
	if in.Kind == kindVT && r.Intn(4) == 0 {
		in.Div = pick(r, []int64{1, 7, 60000, -1000, 2})
	}
	in.ChainTx, in.ChainR = chainPair(r)
	in.Auth = [2]int64{-1, -1}
	if in.Kind != kindPre {
		return in
	}
	// pre-execute: in most cases make the earlier clauses pass so that the later ones are reached
	if r.Intn(4) != 0 {
		in.ChainTx = append([]byte{}, in.ChainR...)
		in.T = pick(r, []int64{0, 1000, 5000, 1_700_000_000_000, 1_700_000_000_123, 17, -5000, -1, -60000})
		in.W = pick(r, []int64{0, 1000, 60000, 60000})
		in.E = pick(r, []int64{floor1000(in.T + 999), floor1000(in.T + in.W), floor1000(in.T+in.W/2+999)})
	}
	in.Max = uint8(pick(r, []int64{0, 1, 2, 3, 16, 16, 255}))
	n := int(in.Max) + r.Intn(3) - 1
	if r.Intn(3) == 0 {
		n = int(in.Max)
	}
	if n < 0 {
		n = 0
	}
	in.Actions = make([][2]int64, n)
	mode := r.Intn(4) // 0: all pass, 1: one action may fail, 2: several random, 3: auth only
	for i := range in.Actions {
		in.Actions[i] = passingRange(r, in.T)
	}
	in.Auth = passingRange(r, in.T)
	switch mode {
	case 1:
		if n > 0 {
			i := r.Intn(n)
			if r.Intn(2) == 0 {
				i = n - 1
			}
			in.Actions[i] = [2]int64{genBound(r, in.T, true), genBound(r, in.T, false)}
		}
		if r.Intn(2) == 0 {
			in.Auth = [2]int64{genBound(r, in.T, true), genBound(r, in.T, false)}
		}
	case 2:
		for i := range in.Actions {
			if r.Intn(3) == 0 {
				in.Actions[i] = [2]int64{genBound(r, in.T, true), genBound(r, in.T, false)}
			}
		}
		in.Auth = [2]int64{genBound(r, in.T, true), genBound(r, in.T, false)}
	case 3:
		in.Auth = [2]int64{genBound(r, in.T, true), genBound(r, in.T, false)}
	}
	return in
}

// admission: every boundary is kept >= 10 s away from the clock so that the answer cannot depend on
// the few microseconds between the two clock readings.
func genAdmit(r *rand.Rand) input {
	in := input{Kind: kindAdmit, Div: 1000, Rel: true, W: 60000, Max: 2}
	in.ChainTx, in.ChainR = chainPair(r)
	// offsets 0/1000/W/W+1000 land (after flooring to a second) within 1 s of the boundaries now and now+W;
	// if the clock crosses the boundary between the two readings the comparator treats the case as vacuous
	in.E = pick(r, []int64{-20000, -10000, 10000, 30000, 50000, 70000, 80000, 0, 1000, 60000, 61000, 0, 1000, 60000, 61000})
	if r.Intn(8) == 0 {
		in.Mis = pick(r, []int64{1, 500, 999})
	}
	n := r.Intn(4)
	in.Actions = make([][2]int64, n)
	rel := func() [2]int64 {
		s := pick(r, []int64{-1, -1, -1, -20000, 20000})
		e := pick(r, []int64{-1, -1, -1, 20000, -20000})
		return [2]int64{s, e}
	}
	for i := range in.Actions {
		in.Actions[i] = [2]int64{-1, -1}
		if r.Intn(4) == 0 {
			in.Actions[i] = rel()
		}
	}
	in.Auth = [2]int64{-1, -1}
	if r.Intn(4) == 0 {
		in.Auth = rel()
	}
	return in
}

func exhaustive(w *emit.Writer) {
	chainR := make([]byte, 32)
	chainR[3] = 9
	chainBad := append([]byte{}, chainR...)
	chainBad[31] = 1
	// kind 0/1: boundary grid
	for _, t := range []int64{0, 5000, 1_700_000_000_123, maxAligned - 60000, maxAligned} {
		for _, wd := range []int64{0, 60000, 59999, maxI64} {
			es := []int64{t - 1000, t - 1, t, t + 1, t + 1000, t + wd - 1000, t + wd - 1, t + wd, t + wd + 1, t + wd + 1000,
				floor1000(t), floor1000(t) + 1000, floor1000(t + wd), floor1000(t+wd) + 1000, -1000, 0, maxAligned, minAligned}
			for _, e := range es {
				_ = w.Put(run(input{Kind: kindVT, E: e, T: t, W: wd, Div: 1000, ChainTx: chainR, ChainR: chainR, Auth: [2]int64{-1, -1}}))
				for _, c := range [][]byte{chainR, chainBad} {
					_ = w.Put(run(input{Kind: kindBase, E: e, T: t, W: wd, Div: 1000, ChainTx: c, ChainR: chainR, Auth: [2]int64{-1, -1}}))
				}
			}
		}
	}
	// kind 2: all sentinel/boundary combinations of one action range and the auth range, counts max-1..max+1
	for _, t := range []int64{5000, 0, -3000} {
		bounds := []int64{-1, -2, 0, t - 1, t, t + 1}
		for _, max := range []uint8{1, 2} {
			for n := int(max) - 1; n <= int(max)+1; n++ {
				for _, as := range bounds {
					for _, ae := range bounds {
						for _, us := range bounds {
							for _, ue := range bounds {
								acts := make([][2]int64, n)
								for i := range acts {
									acts[i] = [2]int64{-1, -1}
								}
								if n > 0 {
									acts[n-1] = [2]int64{as, ae}
								}
								_ = w.Put(run(input{Kind: kindPre, E: floor1000(t + 999), T: t, W: 60000, Div: 1000,
									ChainTx: chainR, ChainR: chainR, Max: max, Actions: acts, Auth: [2]int64{us, ue}}))
							}
						}
					}
				}
			}
		}
	}
}

func TestDriver(t *testing.T) {
	env := emit.GetEnv()
	if env.Out == "" {
		t.Skip("VERIF_OUT not set")
	}
	w, err := emit.NewWriter(env.Out)
	if err != nil {
		t.Fatal(err)
	}
	defer w.Close()
	if env.Mode == "replay" {
		raws, err := emit.ReadReplay(env.Replay)
		if err != nil {
			t.Fatal(err)
		}
		for _, raw := range raws {
			var in input
			if err := json.Unmarshal(raw, &in); err != nil {
				t.Fatal(err)
			}
			if len(in.ChainR) != 32 || len(in.ChainTx) != 32 {
				t.Fatalf("chain ids must be 32 bytes")
			}
			_ = w.Put(run(in))
		}
		return
	}
	r := env.Rand()
	if env.Tier == "thorough" {
		exhaustive(w)
	}
	for i := 0; i < env.N; i++ {
		_ = w.Put(run(gen(r)))
	}
	// admission through a PreExecutor that has been used before, across a second boundary (about one second each)
	nPrime := 4
	if env.Tier == "thorough" {
		nPrime = 20
	}
	for i := 0; i < nPrime; i++ {
		in := genAdmit(r)
		in.ChainTx = append([]byte{}, in.ChainR...)
		in.Prime, in.Mis, in.E = true, 0, int64(i%2)
		_ = w.Put(run(in))
	}
}
