// Node plumbing for the C18 crash driver: a real vm.VM + snow.VM over pebble databases in a directory
// that survives the simulated crash, wrapped so that the harness can stall the asynchronous accepter and
// kill the node (runtime.Goexit in the goroutine that is executing the pipeline) at a chosen point.
package crash

import (
	"context"
	stded "crypto/ed25519"
	"encoding/binary"
	"encoding/json"
	"errors"
	"fmt"
	"runtime"
	"strings"
	"sync"
	"testing"
	"time"

	"github.com/ava-labs/avalanchego/database"
	"github.com/ava-labs/avalanchego/ids"
	"github.com/ava-labs/avalanchego/snow/engine/common"
	"github.com/ava-labs/avalanchego/snow/engine/enginetest"
	"github.com/ava-labs/avalanchego/snow/engine/snowman/block"
	"github.com/ava-labs/avalanchego/snow/snowtest"
	"github.com/ava-labs/avalanchego/utils/hashing"
	"github.com/ava-labs/avalanchego/utils/logging"
	"github.com/ava-labs/avalanchego/x/merkledb"
	"github.com/prometheus/client_golang/prometheus"
	"go.opentelemetry.io/otel/trace"

	"github.com/ava-labs/hypersdk/api"
	"github.com/ava-labs/hypersdk/auth"
	"github.com/ava-labs/hypersdk/chain"
	"github.com/ava-labs/hypersdk/chain/chaintest"
	"github.com/ava-labs/hypersdk/codec"
	"github.com/ava-labs/hypersdk/crypto/ed25519"
	"github.com/ava-labs/hypersdk/event"
	"github.com/ava-labs/hypersdk/genesis"
	"github.com/ava-labs/hypersdk/internal/pebble"
	"github.com/ava-labs/hypersdk/snow"
	"github.com/ava-labs/hypersdk/state/balance"
	"github.com/ava-labs/hypersdk/state/metadata"
	"github.com/ava-labs/hypersdk/storage"
	"github.com/ava-labs/hypersdk/vm"

	avatrace "github.com/ava-labs/avalanchego/trace"
)

type (
	blockContext = block.Context
	sblock = snow.StatefulBlock[*chain.ExecutionBlock, *chain.OutputBlock, *chain.OutputBlock]
	svm    = snow.VM[*chain.ExecutionBlock, *chain.OutputBlock, *chain.OutputBlock]
)

const waitTimeout = 20 * time.Second

// ---- crash kinds ---------------------------------------------------------------------------------

const (
	kClean       = 0 // no crash: all blocks accepted, clean Shutdown (drains the queue)
	kPreIndex    = 1 // consensus thread dies in Accept(k) just before the index update
	kPostIndex   = 2 // consensus thread dies in Accept(k) after the index update, before the block is queued
	kPreResults  = 3 // accepter dies when it has taken block k, before the execution results are written
	kMid         = 4 // accepter dies after the results of block k are written, before the state commit
	kPostCommitI = 5 // accepter dies right after the state commit of block k, still inside chain.Accepter.AcceptBlock
	kPostCommit  = 6 // accepter dies after vm.AcceptBlock(k) returned, before any subscriber is notified
	kNotifyFirst = 7 // accepter dies inside the first accepted subscriber (after it recorded block k)
	kNotifyLast  = 8 // accepter dies inside the last accepted subscriber (after it recorded block k)
	numKinds     = 9
)

var kindNames = [numKinds]string{"clean", "pre-index", "post-index", "pre-results", "mid", "post-commit-inner", "post-commit", "notify-first", "notify-last"}

// ---- control shared between the driver and the wrapped node ------------------------------------------

type notif struct {
	Sub    int    `json:"sub"`
	Height uint64 `json:"h"`
}

type control struct {
	mu   sync.Mutex
	cond *sync.Cond

	kind int    // armed crash kind (kClean = none)
	k    uint64 // block height at which it fires
	lag  uint64 // the accepter may start block h only once min(n, h+lag) blocks are indexed
	n    uint64

	indexed   uint64 // highest block whose index update was done
	accepted  uint64 // blocks whose Accept returned on the consensus thread
	processed uint64 // blocks fully processed by the accepter (last subscriber returned)
	cur       uint64 // block the accepter is working on
	killed    bool   // the node is being killed: whoever is waiting at a gate must die
	fired     bool   // the armed crash point was reached
	open      bool   // gates open unconditionally (recovery node, clean shutdown)

	log []notif
}

func newControl() *control {
	c := &control{open: true}
	c.cond = sync.NewCond(&c.mu)
	return c
}

func (c *control) record(sub int, h uint64) {
	c.mu.Lock()
	c.log = append(c.log, notif{sub, h})
	c.mu.Unlock()
}

func (c *control) snapshotLog() []notif {
	c.mu.Lock()
	defer c.mu.Unlock()
	return append([]notif{}, c.log...)
}

// die marks the crash as fired and terminates the calling goroutine (deferred functions run: in the accepter
// goroutine that is snow.VM's deferred Shutdown, which closes the databases without draining the queue).
func (c *control) die() {
	c.mu.Lock()
	c.fired = true
	c.killed = true
	c.cond.Broadcast()
	c.mu.Unlock()
	runtime.Goexit()
}

// waitFor blocks until pred holds (under the lock) or the timeout expires.
func (c *control) waitFor(pred func() bool, d time.Duration) bool {
	deadline := time.Now().Add(d)
	timer := time.AfterFunc(d, func() { c.mu.Lock(); c.cond.Broadcast(); c.mu.Unlock() })
	defer timer.Stop()
	c.mu.Lock()
	defer c.mu.Unlock()
	for !pred() {
		if time.Now().After(deadline) {
			return false
		}
		c.cond.Wait()
	}
	return true
}

func min64(a, b uint64) uint64 {
	if a < b {
		return a
	}
	return b
}

// ---- wrapped chain -----------------------------------------------------------------------------------

type crashChain struct {
	inner *vm.VM
	ctl   *control
}

var _ snow.Chain[*chain.ExecutionBlock, *chain.OutputBlock, *chain.OutputBlock] = (*crashChain)(nil)

func (c *crashChain) Initialize(ctx context.Context, in snow.ChainInput, app *svm) (snow.ChainIndex[*chain.ExecutionBlock], *chain.OutputBlock, *chain.OutputBlock, bool, error) {
	in.Tracer = &crashTracer{Tracer: in.Tracer, ctl: c.ctl}
	idx, out, acc, ready, err := c.inner.Initialize(ctx, in, app)
	if err != nil {
		return nil, nil, nil, false, err
	}
	return &crashIndex{ChainIndex: idx, ctl: c.ctl}, out, acc, ready, nil
}

func (c *crashChain) SetConsensusIndex(ci *snow.ConsensusIndex[*chain.ExecutionBlock, *chain.OutputBlock, *chain.OutputBlock]) {
	c.inner.SetConsensusIndex(ci)
}

func (c *crashChain) BuildBlock(ctx context.Context, bctx *blockContext, parent *chain.OutputBlock) (*chain.ExecutionBlock, *chain.OutputBlock, error) {
	return c.inner.BuildBlock(ctx, bctx, parent)
}

func (c *crashChain) ParseBlock(ctx context.Context, b []byte) (*chain.ExecutionBlock, error) {
	return c.inner.ParseBlock(ctx, b)
}

func (c *crashChain) VerifyBlock(ctx context.Context, parent *chain.OutputBlock, blk *chain.ExecutionBlock) (*chain.OutputBlock, error) {
	return c.inner.VerifyBlock(ctx, parent, blk)
}

func (c *crashChain) AcceptBlock(ctx context.Context, parent *chain.OutputBlock, blk *chain.OutputBlock) (*chain.OutputBlock, error) {
	ctl := c.ctl
	h := blk.GetHeight()
	// gate: the accepter is stalled until enough blocks are indexed ahead of it
	ctl.mu.Lock()
	ctl.cur = h
	for !ctl.open && !ctl.killed && ctl.accepted < min64(ctl.n, h+ctl.lag) && !(ctl.kind == kPreIndex && h >= ctl.k) {
		ctl.cond.Wait()
	}
	killed := ctl.killed
	fire := ctl.kind == kPreResults && ctl.k == h
	ctl.mu.Unlock()
	if killed || fire {
		ctl.die()
	}
	out, err := c.inner.AcceptBlock(ctx, parent, blk)
	if err != nil {
		return out, err
	}
	ctl.mu.Lock()
	fire = ctl.kind == kPostCommit && ctl.k == h
	ctl.mu.Unlock()
	if fire {
		ctl.die()
	}
	return out, nil
}

// crashIndex wraps the persistent block index so that the consensus thread can be killed around the index update.
type crashIndex struct {
	snow.ChainIndex[*chain.ExecutionBlock]
	ctl *control
}

func (ci *crashIndex) UpdateLastAccepted(ctx context.Context, blk *chain.ExecutionBlock) error {
	ctl := ci.ctl
	h := blk.GetHeight()
	ctl.mu.Lock()
	pre := ctl.kind == kPreIndex && ctl.k == h
	post := ctl.kind == kPostIndex && ctl.k == h
	ctl.mu.Unlock()
	if pre {
		// Give a (wrongly) early queued block the chance to be processed before the consensus thread dies:
		// on the unchanged code nothing can happen here because block h is not queued yet.
		ctl.waitFor(func() bool { return ctl.processed >= h }, 30*time.Millisecond)
		ctl.die()
	}
	if err := ci.ChainIndex.UpdateLastAccepted(ctx, blk); err != nil {
		return err
	}
	ctl.mu.Lock()
	if ctl.indexed < h {
		ctl.indexed = h
	}
	ctl.cond.Broadcast()
	ctl.mu.Unlock()
	if post {
		ctl.die()
	}
	return nil
}

// crashTracer kills the accepter inside chain.Accepter.AcceptBlock: the span "Chain.AcceptBlock" is started after
// vm.AcceptBlock wrote the execution results and before the state commit, and ended right after the commit.
type crashTracer struct {
	avatrace.Tracer
	ctl *control
}

const acceptSpan = "Chain.AcceptBlock"

func (t *crashTracer) Start(ctx context.Context, name string, opts ...trace.SpanStartOption) (context.Context, trace.Span) {
	if name == acceptSpan {
		ctl := t.ctl
		ctl.mu.Lock()
		fireMid := ctl.kind == kMid && ctl.k == ctl.cur && !ctl.open
		fireEnd := ctl.kind == kPostCommitI && ctl.k == ctl.cur && !ctl.open
		ctl.mu.Unlock()
		if fireMid {
			ctl.die()
		}
		ctx2, span := t.Tracer.Start(ctx, name, opts...)
		if fireEnd {
			return ctx2, &crashSpan{Span: span, ctl: ctl}
		}
		return ctx2, span
	}
	return t.Tracer.Start(ctx, name, opts...)
}

type crashSpan struct {
	trace.Span
	ctl *control
}

func (s *crashSpan) End(opts ...trace.SpanEndOption) {
	s.Span.End(opts...)
	s.ctl.die()
}

// ---- subscribers -------------------------------------------------------------------------------------

// sub 0: registered on the snow VM before Initialize (runs before the VM's own subscribers)
func firstSub(ctl *control) event.Subscription[*chain.OutputBlock] {
	return event.SubscriptionFunc[*chain.OutputBlock]{
		NotifyF: func(_ context.Context, b *chain.OutputBlock) error {
			h := b.GetHeight()
			ctl.record(0, h)
			ctl.mu.Lock()
			fire := ctl.kind == kNotifyFirst && ctl.k == h && !ctl.open
			ctl.mu.Unlock()
			if fire {
				ctl.die()
			}
			return nil
		},
	}
}

// sub 1: a block subscription installed through a vm.Option (runs after the VM's own mempool subscriber, last)
func lastSubOption(ctl *control) vm.Option {
	factory := event.SubscriptionFuncFactory[*chain.ExecutedBlock]{
		NotifyF: func(_ context.Context, b *chain.ExecutedBlock) error {
			h := b.Block.Hght
			ctl.record(1, h)
			ctl.mu.Lock()
			fire := ctl.kind == kNotifyLast && ctl.k == h && !ctl.open
			ctl.mu.Unlock()
			if fire {
				ctl.die()
			}
			ctl.mu.Lock()
			if ctl.processed < h {
				ctl.processed = h
			}
			ctl.cond.Broadcast()
			ctl.mu.Unlock()
			return nil
		},
	}
	return vm.NewOption[struct{}]("verifcrashsub", struct{}{}, func(_ api.VM, _ struct{}) (vm.Opt, error) {
		return vm.WithBlockSubscriptions(factory), nil
	})
}

// ---- genesis / factory --------------------------------------------------------------------------------

type world struct {
	genesisBytes []byte
	chainID      ids.ID
	authFactory  chain.AuthFactory
}

func newWorld() (*world, error) {
	seed := make([]byte, stded.SeedSize)
	copy(seed, "verif-C18-crash-driver-fixed-seed")
	var priv ed25519.PrivateKey
	copy(priv[:], stded.NewKeyFromSeed(seed))
	af := auth.NewED25519Factory(priv)
	rules := genesis.NewDefaultRules()
	rules.MinBlockGap = 0
	rules.MinEmptyBlockGap = 0
	g := &genesis.DefaultGenesis{
		StateBranchFactor: merkledb.BranchFactor16,
		CustomAllocation:  []*genesis.CustomAllocation{{Address: af.Address(), Balance: 1_000_000_000_000_000}},
		Rules:             rules,
	}
	gb, err := json.Marshal(g)
	if err != nil {
		return nil, err
	}
	return &world{genesisBytes: gb, chainID: hashing.ComputeHash256Array(gb), authFactory: af}, nil
}

func newInnerVM(ctl *control) (*vm.VM, error) {
	actionParser := codec.NewTypeParser[chain.Action]()
	authParser := codec.NewTypeParser[chain.Auth]()
	outputParser := codec.NewTypeParser[codec.Typed]()
	if err := errors.Join(
		actionParser.Register(&chaintest.TestAction{}, chaintest.UnmarshalTestAction),
		authParser.Register(&auth.ED25519{}, auth.UnmarshalED25519),
		outputParser.Register(&chaintest.TestOutput{}, chaintest.UnmarshalTestOutput),
	); err != nil {
		return nil, err
	}
	return vm.New(
		genesis.DefaultGenesisFactory{},
		balance.NewPrefixBalanceHandler([]byte{0}),
		metadata.NewDefaultManager(),
		actionParser, authParser, outputParser,
		auth.DefaultEngines(),
		vm.WithManual(), lastSubOption(ctl),
	)
}

// ---- node ----------------------------------------------------------------------------------------------

type node struct {
	w      *world
	dir    string
	ctl    *control
	inner  *vm.VM
	snowVM *svm
	initOK bool
}

type initOutcome struct {
	Class int    `json:"class"` // 0 ok, 1 invalid-state error, 2 results error, 3 panic, 9 other error, 10 hang
	Text  string `json:"text,omitempty"`
}

const (
	ocOK      = 0
	ocInvalid = 1
	ocResults = 2
	ocPanic   = 3
	ocOther   = 9
	ocHang    = 10
)

func classify(err error) initOutcome {
	if err == nil {
		return initOutcome{Class: ocOK}
	}
	s := err.Error()
	switch {
	case strings.Contains(s, "cannot extract latest output block from invalid state"):
		return initOutcome{ocInvalid, s}
	case strings.Contains(s, "execution results height") || strings.Contains(s, "last execution results") || strings.Contains(s, "invalid execution results length"):
		return initOutcome{ocResults, s}
	default:
		return initOutcome{ocOther, s}
	}
}

// startNode creates a vm + snow VM over dir and runs Initialize (panics and hangs are turned into outcomes).
func startNode(tb testing.TB, w *world, dir string, ctl *control) (*node, initOutcome) {
	inner, err := newInnerVM(ctl)
	if err != nil {
		return nil, initOutcome{ocOther, "vm.New: " + err.Error()}
	}
	nd := &node{w: w, dir: dir, ctl: ctl, inner: inner}
	nd.snowVM = snow.NewVM[*chain.ExecutionBlock, *chain.OutputBlock, *chain.OutputBlock]("v0.0.1", &crashChain{inner: inner, ctl: ctl})
	nd.snowVM.AddAcceptedSub(firstSub(ctl))
	snowCtx := snowtest.Context(tb, w.chainID)
	snowCtx.Log = logging.NoLog{}
	snowCtx.ChainDataDir = dir
	snowCtx.NodeID = ids.BuildTestNodeID([]byte{1})
	toEngine := make(chan common.Message, 8)
	appSender := &enginetest.Sender{}
	done := make(chan initOutcome, 1)
	go func() {
		defer func() {
			if r := recover(); r != nil {
				done <- initOutcome{ocPanic, fmt.Sprint(r)}
			}
		}()
		done <- classify(nd.snowVM.Initialize(context.Background(), snowCtx, nil, w.genesisBytes, nil, nil, toEngine, nil, appSender))
	}()
	select {
	case oc := <-done:
		nd.initOK = oc.Class == ocOK
		return nd, oc
	case <-time.After(waitTimeout):
		return nd, initOutcome{ocHang, "Initialize did not return"}
	}
}

// shutdown closes the node (idempotent in snow.VM); bounded.
func (nd *node) shutdown() error {
	done := make(chan error, 1)
	go func() {
		defer func() {
			if r := recover(); r != nil {
				done <- fmt.Errorf("shutdown panic: %v", r)
			}
		}()
		done <- nd.snowVM.Shutdown(context.Background())
	}()
	select {
	case err := <-done:
		return err
	case <-time.After(waitTimeout):
		return errors.New("shutdown hang")
	}
}

// ---- persistent markers ----------------------------------------------------------------------------------

type markers struct {
	Index   uint64 `json:"index"`   // chain index last accepted height
	State   uint64 `json:"state"`   // height key in the committed state
	Results uint64 `json:"results"` // height suffix of the stored last execution results (0 = none stored)
	Root    string `json:"root"`    // merkle root of the committed state
	ResHash string `json:"reshash"` // hash of the stored execution result bytes
	Err     string `json:"err,omitempty"`
}

// probe opens the three databases of a stopped node directly and reads the progress markers.
func probe(dir string) markers {
	var m markers
	cfg := pebble.NewDefaultConfig()
	bdb, err := storage.New(cfg, dir, "blockdb", prometheus.NewRegistry())
	if err != nil {
		m.Err = "blockdb: " + err.Error()
		return m
	}
	if v, err := bdb.Get([]byte{0x3}); err == nil {
		m.Index, _ = database.ParseUInt64(v)
	} else if err != database.ErrNotFound {
		m.Err += "index: " + err.Error()
	}
	_ = bdb.Close()
	rdb, err := storage.New(cfg, dir, "results", prometheus.NewRegistry())
	if err != nil {
		m.Err += "results: " + err.Error()
		return m
	}
	if v, err := rdb.Get([]byte{0}); err == nil && len(v) >= 8 {
		m.Results = binary.BigEndian.Uint64(v[len(v)-8:])
		m.ResHash = ids.ID(hashing.ComputeHash256Array(v)).String()
	} else if err != nil && err != database.ErrNotFound {
		m.Err += "results: " + err.Error()
	}
	_ = rdb.Close()
	raw, err := storage.New(cfg, dir, "statedb", prometheus.NewRegistry())
	if err != nil {
		m.Err += "statedb: " + err.Error()
		return m
	}
	ctx := context.Background()
	mdb, err := merkledb.New(ctx, raw, merkledb.Config{
		BranchFactor:                merkledb.BranchFactor16,
		RootGenConcurrency:          1,
		HistoryLength:               256,
		ValueNodeCacheSize:          1 << 20,
		IntermediateNodeCacheSize:   1 << 20,
		IntermediateWriteBufferSize: 1 << 20,
		IntermediateWriteBatchSize:  1 << 12,
		Reg:                         prometheus.NewRegistry(),
		TraceLevel:                  merkledb.NoTrace,
		Tracer:                      avatrace.Noop,
	})
	if err != nil {
		m.Err += "merkledb: " + err.Error()
		_ = raw.Close()
		return m
	}
	if v, err := mdb.Get(chain.HeightKey(metadata.NewDefaultManager().HeightPrefix())); err == nil {
		m.State, _ = database.ParseUInt64(v)
	} else {
		m.Err += "stateheight: " + err.Error()
	}
	if root, err := mdb.GetMerkleRoot(ctx); err == nil {
		m.Root = root.String()
	}
	_ = mdb.Close()
	_ = raw.Close()
	return m
}
