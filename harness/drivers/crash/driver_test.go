// Driver for C18: crash at any point of the accept pipeline, then restart over the same databases.
//
// Real code driven: snow.VM (Accept / queueAccept / async accepter / Shutdown / Initialize / makeConsensusIndex /
// reprocessFromOutputToInput / start-up notifyAccepted), vm.VM (Initialize / initLastAccepted /
// extractLatestOutputBlock / AcceptBlock), chain.Accepter, chainindex.ChainIndex, over pebble + merkledb.
// See node_test.go (crash plumbing) and scenario_test.go (one scenario).
package crash

import (
	"encoding/json"
	"fmt"
	"io"
	"log"
	"math/rand"
	"sort"
	"sync"
	"testing"

	"github.com/ava-labs/hypersdk/verifharness/emit"
)

const (
	refLenQuick    = 24
	refLenThorough = 24
	workers        = 4
)

type mirror struct {
	input
	M   int         `json:"m"`
	Obs observation `json:"obs"`
	Exp [3]uint64   `json:"expected_markers"`
}

func logTerm(l []notif) string {
	items := make([]string, len(l))
	for i, e := range l {
		items[i] = emit.Pair(emit.N(uint64(e.Sub)), emit.N(e.Height))
	}
	return emit.List("N * N", items)
}

// expectedMarkers: persistent markers (index, state, results) the lock-step schedule must leave behind on the unchanged
// pipeline. Only used to keep the known-finding signatures narrow (the Coq model is the real oracle).
func expectedMarkers(in input) [3]uint64 {
	n, k, lag := uint64(in.N), uint64(in.K), uint64(in.Lag)
	behind := uint64(0) // processed blocks when the consensus thread is about to accept block k
	if k > 1+lag {
		behind = k - 1 - lag
	}
	ahead := min64(n, k+lag)
	switch in.Kind {
	case kClean:
		return [3]uint64{n, n, n}
	case kPreIndex:
		return [3]uint64{k - 1, behind, behind}
	case kPostIndex:
		return [3]uint64{k, behind, behind}
	case kPreResults:
		return [3]uint64{ahead, k - 1, k - 1}
	case kMid:
		return [3]uint64{ahead, k - 1, k}
	default:
		return [3]uint64{ahead, k, k}
	}
}

// signature names the failure class of a run whose recovery does not satisfy the property (empty when it does).
func signature(in input, m int, o observation) string {
	exp := expectedMarkers(in)
	got := [3]uint64{o.AtCrash.Index, o.AtCrash.State, o.AtCrash.Results}
	switch {
	case o.DriverErr != "":
		return "driver-error-or-hang"
	case o.AtCrash.Err != "":
		return "databases-unreadable-after-crash"
	case got != exp:
		return fmt.Sprintf("unexpected-persistent-markers-at-crash:kind=%s", kindNames[in.Kind])
	case in.Kind == kClean && o.Rec.Class != ocOK:
		return "clean-shutdown-not-recoverable"
	}
	d := int64(o.AtCrash.Index) - int64(o.AtCrash.State)
	switch o.Rec.Class {
	case ocPanic:
		if d == 1 && o.Rec.Text == "runtime error: invalid memory address or nil pointer dereference" {
			return "recover-fails:index-ahead-of-state-by-1:nil-chain-panic"
		}
		return fmt.Sprintf("recover-panics:index-minus-state=%d", d)
	case ocInvalid:
		if d >= 2 {
			return "recover-fails:index-ahead-of-state-by-ge-2"
		}
		return fmt.Sprintf("recover-fails:invalid-state:index-minus-state=%d", d)
	case ocResults:
		return fmt.Sprintf("recover-fails:execution-results-mismatch:index-minus-state=%d", d)
	case ocOther:
		return fmt.Sprintf("recover-fails:other-error:index-minus-state=%d", d)
	case ocHang:
		return "recover-hangs"
	}
	switch {
	case o.RecLast != o.AtCrash.Index || !o.RecIDOk:
		return "recovered-with-wrong-last-accepted"
	case o.RecProc != o.AtCrash.Index || !o.RecRootOk:
		return "recovered-with-wrong-state"
	case !o.RecResOk:
		return "recovered-with-wrong-execution-results"
	case !o.PostOk || !o.AfterOk:
		return "recovered-node-diverges-afterwards"
	}
	return "accepted-block-notification-missing-or-out-of-order"
}

func run(tb testing.TB, w *world, ref *reference, base string, seq int, in input) emit.Case {
	o := runScenario(tb, w, ref, base, seq, in)
	m := len(ref.blocks) - 1
	crashOK := o.AtCrash.Err == "" &&
		int(o.AtCrash.State) <= m && o.AtCrash.Root == ref.roots[o.AtCrash.State] &&
		int(o.AtCrash.Results) <= m && (o.AtCrash.Results == 0 && o.AtCrash.ResHash == "" || o.AtCrash.Results > 0 && o.AtCrash.ResHash == ref.stored[o.AtCrash.Results])
	coq := emit.App("mk",
		emit.N(uint64(m)), emit.N(uint64(in.N)), emit.N(uint64(in.Kind)), emit.N(uint64(in.K)), emit.N(uint64(in.Lag)), emit.N(uint64(in.Post)),
		emit.Bool(o.Fired), emit.Bool(o.DriverErr == ""),
		emit.N(o.AtCrash.Index), emit.N(o.AtCrash.State), emit.N(o.AtCrash.Results), emit.Bool(crashOK),
		logTerm(o.PreLog),
		emit.N(uint64(o.Rec.Class)), emit.N(o.RecLast), emit.Bool(o.RecIDOk), emit.N(o.RecProc), emit.Bool(o.RecRootOk), emit.Bool(o.RecResOk),
		logTerm(o.RecLog),
		emit.Bool(o.PostOk), logTerm(o.PostLog),
		emit.N(o.After.Index), emit.N(o.After.State), emit.N(o.After.Results), emit.Bool(o.AfterOk),
	)
	kind := kindNames[in.Kind]
	switch {
	case o.AtCrash.Index == o.AtCrash.State:
		kind += "/index=state"
	case o.AtCrash.Index == o.AtCrash.State+1:
		kind += "/index=state+1"
	default:
		kind += "/index>=state+2"
	}
	return emit.Case{
		Coq:        coq,
		JSON:       mirror{input: in, M: m, Obs: o, Exp: expectedMarkers(in)},
		Nontrivial: (o.Fired || in.Kind == kClean) && o.AtCrash.Index >= 1,
		Kind:       kind,
		Sig:        signature(in, m, o),
	}
}

func effLag(n, k, lag int) int {
	// lags beyond n-k (+1 for the consensus-side kinds) give the same run
	if lag > n-k+1 {
		return n - k + 1
	}
	return lag
}

func genRandom(r *rand.Rand, maxN int) input {
	n := 1 + r.Intn(maxN)
	if r.Intn(8) == 0 {
		n = 17 + r.Intn(4) // long enough for the queue to fill completely
	}
	in := input{N: n, Kind: r.Intn(numKinds), Post: r.Intn(3)}
	in.K = 1 + r.Intn(n)
	switch r.Intn(4) {
	case 0:
		in.Lag = 0
	case 1:
		in.Lag = 1 + r.Intn(2)
	case 2:
		in.Lag = r.Intn(17)
	default:
		in.Lag = r.Intn(n + 1)
		if in.Lag > 16 {
			in.Lag = 16
		}
	}
	if in.Kind == kClean {
		in.K = 0
	}
	return in
}

func TestDriver(t *testing.T) {
	env := emit.GetEnv()
	if env.Out == "" {
		t.Skip("VERIF_OUT not set")
	}
	log.SetOutput(io.Discard) // pebble reports WAL replays through the standard logger
	wr, err := emit.NewWriter(env.Out)
	if err != nil {
		t.Fatal(err)
	}
	defer wr.Close()
	w, err := newWorld()
	if err != nil {
		t.Fatal(err)
	}
	base := scratchBase(t)

	var inputs []input
	refLen := refLenQuick
	if env.Mode == "replay" {
		raws, err := emit.ReadReplay(env.Replay)
		if err != nil {
			t.Fatal(err)
		}
		for _, raw := range raws {
			var in input
			if err := json.Unmarshal(raw, &in); err != nil {
				t.Fatal(err)
			}
			if in.N < 1 || in.N > 40 || in.K < 0 || in.K > in.N || in.Lag < 0 || in.Lag > 16 || in.Kind < 0 || in.Kind >= numKinds || in.Post < 0 || in.Post > 3 || (in.Kind != kClean && in.K < 1) {
				t.Fatalf("replay input out of range: %+v", in)
			}
			if in.N+in.Post > refLen {
				refLen = in.N + in.Post
			}
			inputs = append(inputs, in)
		}
	} else {
		r := env.Rand()
		seen := map[input]bool{}
		add := func(in input) {
			if in.Kind == kClean {
				in.K = 0
			} else {
				in.Lag = effLag(in.N, in.K, in.Lag)
			}
			if !seen[in] {
				seen[in] = true
				inputs = append(inputs, in)
			}
		}
		if env.Tier == "thorough" {
			refLen = refLenThorough
			for n := 1; n <= 12; n++ {
				for lag := 0; lag <= n; lag++ {
					add(input{N: n, Kind: kClean, Lag: lag, Post: 1})
				}
				for kind := 1; kind < numKinds; kind++ {
					for k := 1; k <= n; k++ {
						for lag := 0; lag <= n-k+1; lag++ {
							add(input{N: n, Kind: kind, K: k, Lag: lag, Post: (n + k + lag) % 3})
						}
					}
				}
			}
			for kind := 1; kind < numKinds; kind++ {
				for _, k := range []int{1, 2, 4} {
					for _, lag := range []int{15, 16} {
						add(input{N: 20, Kind: kind, K: k, Lag: lag, Post: 1})
					}
				}
			}
		} else {
			// structured sweep: every crash kind x block x lag on a chain of 5, plus the full queue
			n := 5
			for _, lag := range []int{0, 1, 3} {
				add(input{N: n, Kind: kClean, Lag: lag, Post: 1})
			}
			for kind := 1; kind < numKinds; kind++ {
				for _, k := range []int{1, 2, 4, 5} {
					for _, lag := range []int{0, 1, 2, 4} {
						add(input{N: n, Kind: kind, K: k, Lag: lag, Post: (kind + k + lag) % 3})
					}
				}
			}
			add(input{N: 20, Kind: kPreResults, K: 2, Lag: 16, Post: 1})
			add(input{N: 20, Kind: kPostCommit, K: 3, Lag: 16, Post: 1})
			add(input{N: 1, Kind: kPostIndex, K: 1, Lag: 0, Post: 2})
			add(input{N: 1, Kind: kNotifyFirst, K: 1, Lag: 0, Post: 2})
		}
		for tries := 0; len(inputs) < env.N && tries < 50*env.N; tries++ {
			add(genRandom(r, 8))
		}
	}

	ref, err := buildReference(t, w, base, refLen)
	if err != nil {
		t.Fatal(err)
	}

	// scenarios are independent (own directory, own node): run a few at a time, emit in input order
	out := make([]emit.Case, len(inputs))
	var wg sync.WaitGroup
	next := make(chan int)
	for g := 0; g < workers; g++ {
		wg.Add(1)
		go func() {
			defer wg.Done()
			for i := range next {
				out[i] = run(t, w, ref, base, i, inputs[i])
			}
		}()
	}
	for i := range inputs {
		next <- i
	}
	close(next)
	wg.Wait()
	for _, c := range out {
		_ = wr.Put(c)
	}
	if testing.Verbose() {
		hist := map[string]int{}
		for _, c := range out {
			hist[c.Kind+" "+c.Sig]++
		}
		keys := make([]string, 0, len(hist))
		for k := range hist {
			keys = append(keys, k)
		}
		sort.Strings(keys)
		for _, k := range keys {
			fmt.Println(hist[k], k)
		}
	}
}
