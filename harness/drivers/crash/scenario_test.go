// Scenario execution for the C18 crash driver: reference chain, victim run with a crash, recovery.
package crash

import (
	"context"
	"encoding/binary"
	"errors"
	"fmt"
	"os"
	"path/filepath"
	"testing"
	"time"

	"github.com/ava-labs/avalanchego/ids"
	"github.com/ava-labs/avalanchego/utils/hashing"

	"github.com/ava-labs/hypersdk/chain"
	"github.com/ava-labs/hypersdk/chain/chaintest"
)

// reference = the node that never crashes; it also produces the chain every victim is fed with.
type reference struct {
	blocks  [][]byte // blocks[h] = bytes of the block at height h (h >= 1)
	ids     []string // block id per height (0 = genesis)
	roots   []string // state root after executing heights 0..h
	results []string // hash of the marshalled execution results of block h; "" for genesis
	stored  []string // hash of the value vm.AcceptBlock stores for block h (results || height)
}

func buildReference(tb testing.TB, w *world, base string, n int) (*reference, error) {
	ctx := context.Background()
	dir := filepath.Join(base, "reference")
	if err := os.MkdirAll(dir, 0o755); err != nil {
		return nil, err
	}
	ctl := newControl()
	nd, oc := startNode(tb, w, dir, ctl)
	if oc.Class != ocOK {
		if nd != nil {
			_ = nd.shutdown()
		}
		return nil, fmt.Errorf("reference init: %+v", oc)
	}
	defer nd.shutdown() //nolint:errcheck
	ref := &reference{blocks: make([][]byte, n+1), ids: make([]string, n+1), roots: make([]string, n+1), results: make([]string, n+1), stored: make([]string, n+1)}
	last, err := nd.snowVM.GetConsensusIndex().GetLastAccepted(ctx)
	if err != nil {
		return nil, err
	}
	root, err := last.View.GetMerkleRoot(ctx)
	if err != nil {
		return nil, err
	}
	ref.ids[0], ref.roots[0] = last.GetID().String(), root.String()
	nonce := uint64(0)
	parent := last
	for h := 1; h <= n; h++ {
		// The block is assembled directly (not through the mempool and the builder): every block but each third
		// carries one or two transactions.
		now := time.Now().UnixMilli()
		var txs []*chain.Transaction
		if h%3 != 0 {
			unitPrices, err := nd.inner.UnitPrices(ctx)
			if err != nil {
				return nil, err
			}
			for j := 0; j < 1+h%2; j++ {
				action := chaintest.NewDummyTestAction()
				action.Nonce = nonce
				nonce++
				tx, err := chain.GenerateTransaction(nd.inner.GetRuleFactory(), unitPrices, now, []chain.Action{action}, w.authFactory)
				if err != nil {
					return nil, err
				}
				txs = append(txs, tx)
			}
		}
		parentRoot, err := parent.View.GetMerkleRoot(ctx)
		if err != nil {
			return nil, err
		}
		ts := now
		if parent.Tmstmp > ts {
			ts = parent.Tmstmp
		}
		sb, err := chain.NewStatelessBlock(parent.GetID(), ts, uint64(h), txs, parentRoot, nil)
		if err != nil {
			return nil, err
		}
		blk, err := nd.snowVM.ParseBlock(ctx, sb.GetBytes())
		if err != nil {
			return nil, fmt.Errorf("parse %d: %w", h, err)
		}
		if err := blk.Verify(ctx); err != nil {
			return nil, err
		}
		if err := nd.snowVM.SetPreference(ctx, blk.ID()); err != nil {
			return nil, err
		}
		if err := blk.Accept(ctx); err != nil {
			return nil, err
		}
		if !ctl.waitFor(func() bool { return ctl.processed >= uint64(h) }, waitTimeout) {
			return nil, fmt.Errorf("reference: block %d not processed", h)
		}
		parent = blk.Output
		ref.blocks[h] = blk.Bytes()
		ref.ids[h] = blk.ID().String()
		root, err := blk.Output.View.GetMerkleRoot(ctx)
		if err != nil {
			return nil, err
		}
		ref.roots[h] = root.String()
		ref.results[h] = resultsHash(blk.Output)
		ref.stored[h] = ids.ID(hashing.ComputeHash256Array(binary.BigEndian.AppendUint64(blk.Output.ExecutionResults.Marshal(), uint64(h)))).String()
	}
	return ref, nil
}

func resultsHash(b *chain.OutputBlock) string {
	if b == nil || b.ExecutionResults == nil {
		return ""
	}
	return ids.ID(hashing.ComputeHash256Array(b.ExecutionResults.Marshal())).String()
}

// ---- one scenario -------------------------------------------------------------------------------------------

type input struct {
	N    int `json:"n"`    // blocks fed to the victim
	Kind int `json:"kind"` // crash kind
	K    int `json:"k"`    // block at which the crash fires (1..n); ignored for clean
	Lag  int `json:"lag"`  // how many blocks the consensus thread runs ahead of the accepter (0..16)
	Post int `json:"post"` // blocks accepted after a successful recovery (0..2)
}

type observation struct {
	Fired     bool        `json:"fired"`
	DriverErr string      `json:"driver_err,omitempty"`
	AtCrash   markers     `json:"at_crash"`
	PreLog    []notif     `json:"pre_log"`
	Rec       initOutcome `json:"rec"`
	RecLast   uint64      `json:"rec_last"`    // height of the snow VM's last accepted block after recovery
	RecIDOk   bool        `json:"rec_id_ok"`   // its id = the reference chain's id at the index height
	RecRootOk bool        `json:"rec_root_ok"` // recovered state root = reference root at that height
	RecResOk  bool        `json:"rec_res_ok"`  // recovered last execution results = reference results at that height
	RecProc   uint64      `json:"rec_proc"`    // height of consensus index GetLastAccepted (last processed)
	RecLog    []notif     `json:"rec_log"`     // notifications delivered during the start-up of the recovered node
	PostOk    bool        `json:"post_ok"`     // the post blocks were accepted and the final root matches the reference
	PostLog   []notif     `json:"post_log"`
	After     markers     `json:"after"` // markers after the recovered node was shut down cleanly
	AfterOk   bool        `json:"after_ok"`
	Millis    int64       `json:"-"`
}

func feed(ctx context.Context, nd *node, ref *reference, h int) (*sblock, error) {
	blk, err := nd.snowVM.ParseBlock(ctx, ref.blocks[h])
	if err != nil {
		return nil, fmt.Errorf("parse %d: %w", h, err)
	}
	if err := blk.Verify(ctx); err != nil {
		return nil, fmt.Errorf("verify %d: %w", h, err)
	}
	if err := nd.snowVM.SetPreference(ctx, blk.ID()); err != nil {
		return nil, err
	}
	return blk, nil
}

func runScenario(tb testing.TB, w *world, ref *reference, base string, seq int, in input) observation {
	start := time.Now()
	ctx := context.Background()
	var obs observation
	dir := filepath.Join(base, fmt.Sprintf("victim%d", seq))
	if err := os.MkdirAll(dir, 0o755); err != nil {
		obs.DriverErr = err.Error()
		return obs
	}
	defer os.RemoveAll(dir)

	// --- victim run
	ctl := newControl()
	nd, oc := startNode(tb, w, dir, ctl)
	if oc.Class != ocOK {
		obs.DriverErr = fmt.Sprintf("victim init: %+v", oc)
		if nd != nil {
			_ = nd.shutdown()
		}
		return obs
	}
	n, k, lag := uint64(in.N), uint64(in.K), uint64(in.Lag)
	ctl.mu.Lock()
	ctl.kind, ctl.k, ctl.lag, ctl.n, ctl.open = in.Kind, k, lag, n, false
	ctl.mu.Unlock()
	for h := uint64(1); h <= n; h++ {
		need := uint64(0)
		if h > 1+lag {
			need = h - 1 - lag
		}
		if !ctl.waitFor(func() bool { return ctl.killed || ctl.processed >= need }, waitTimeout) {
			obs.DriverErr = fmt.Sprintf("hang: block %d never processed", need)
			break
		}
		ctl.mu.Lock()
		killed := ctl.killed
		ctl.mu.Unlock()
		if killed {
			break
		}
		blk, err := feed(ctx, nd, ref, int(h))
		if err != nil {
			obs.DriverErr = err.Error()
			break
		}
		// Accept runs in its own goroutine: a consensus-side crash point terminates it with Goexit
		res := make(chan error, 1)
		go func() {
			returned := false
			defer func() {
				if !returned {
					res <- errDied
				}
			}()
			err := blk.Accept(ctx)
			returned = true
			res <- err
		}()
		var aerr error
		select {
		case aerr = <-res:
		case <-time.After(waitTimeout):
			aerr = errors.New("hang: Accept did not return")
		}
		if aerr == errDied {
			break
		}
		if aerr != nil {
			obs.DriverErr = fmt.Sprintf("accept %d: %v", h, aerr)
			break
		}
		ctl.mu.Lock()
		ctl.accepted = h
		ctl.cond.Broadcast()
		ctl.mu.Unlock()
	}
	if in.Kind == kClean || obs.DriverErr != "" {
		// clean stop: let the accepter drain
		ctl.mu.Lock()
		ctl.open = true
		ctl.cond.Broadcast()
		ctl.mu.Unlock()
	} else {
		// wait for the armed crash to fire (accepter kinds fire asynchronously)
		if !ctl.waitFor(func() bool { return ctl.fired }, waitTimeout) {
			obs.DriverErr = "hang: crash point never reached"
			ctl.mu.Lock()
			ctl.open = true
			ctl.cond.Broadcast()
			ctl.mu.Unlock()
		}
	}
	if err := nd.shutdown(); err != nil && obs.DriverErr == "" {
		obs.DriverErr = "victim shutdown: " + err.Error()
	}
	ctl.mu.Lock()
	obs.Fired = ctl.fired
	ctl.mu.Unlock()
	obs.PreLog = ctl.snapshotLog()
	obs.AtCrash = probe(dir)

	// --- recovery
	rctl := newControl()
	rnd, roc := startNode(tb, w, dir, rctl)
	obs.Rec = roc
	obs.RecLog = rctl.snapshotLog()
	if roc.Class == ocOK {
		la := rnd.snowVM.LastAcceptedBlock(ctx)
		obs.RecLast = la.Height()
		if int(obs.RecLast) < len(ref.ids) {
			obs.RecIDOk = la.ID().String() == ref.ids[obs.RecLast]
		}
		if out, err := rnd.snowVM.GetConsensusIndex().GetLastAccepted(ctx); err == nil {
			obs.RecProc = out.GetHeight()
			if int(obs.RecProc) < len(ref.ids) {
				if root, err := out.View.GetMerkleRoot(ctx); err == nil {
					obs.RecRootOk = root.String() == ref.roots[obs.RecProc]
				}
				obs.RecResOk = obs.RecProc == 0 || resultsHash(out) == ref.results[obs.RecProc]
			}
		}
		// the recovered node keeps going
		obs.PostOk = true
		top := obs.RecLast
		for j := 1; j <= in.Post && int(top)+1 < len(ref.blocks); j++ {
			blk, err := feed(ctx, rnd, ref, int(top)+1)
			if err == nil {
				err = blk.Accept(ctx)
			}
			if err != nil || !rctl.waitFor(func() bool { return rctl.processed >= top+1 }, waitTimeout) {
				obs.PostOk = false
				break
			}
			top++
			root, err := blk.Output.View.GetMerkleRoot(ctx)
			if err != nil || root.String() != ref.roots[top] {
				obs.PostOk = false
			}
		}
		obs.PostLog = rctl.snapshotLog()[len(obs.RecLog):]
	}
	if rnd != nil {
		if err := rnd.shutdown(); err != nil && obs.DriverErr == "" {
			obs.DriverErr = "recovered shutdown: " + err.Error()
		}
	}
	obs.After = probe(dir)
	if roc.Class == ocOK {
		top := obs.After.Index
		obs.AfterOk = int(top) < len(ref.roots) && obs.After.State == top && obs.After.Results == top && obs.After.Root == ref.roots[top]
	}
	obs.Millis = time.Since(start).Milliseconds()
	return obs
}

var errDied = errors.New("consensus goroutine died")

// scratchBase returns a directory for the node databases: tmpfs when available (every case opens and fsyncs several
// pebble databases), else the test's temp dir. Removed at the end of the test.
func scratchBase(tb testing.TB) string {
	if st, err := os.Stat("/dev/shm"); err == nil && st.IsDir() {
		if d, err := os.MkdirTemp("/dev/shm", "verif-c18-"); err == nil {
			tb.Cleanup(func() { os.RemoveAll(d) })
			return d
		}
	}
	return tb.TempDir()
}
