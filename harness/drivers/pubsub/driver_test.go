// Driver for C32: pubsub.MessageBuffer (Send / timer flush / Close / Queue consumer) and the
// canoto BatchMessage encoding (CreateBatchMessage / ParseBatchMessage).
//
// Timer determinism: the buffer is created with timeout D. A generated "timer" operation means
// "wait until the armed timer has fired" (observed through the buffer's own debug log line). All other
// operations of a burst must complete within D/2 of the moment the buffer was last known to have no
// armed timer; the timer cannot fire earlier than D after it was armed, so no operation races with
// it. A run that took longer is discarded and repeated with a doubled D.
package pubsub

import (
	"encoding/hex"
	"encoding/json"
	"errors"
	"fmt"
	"math/rand"
	"sync"
	"sync/atomic"
	"testing"
	"time"

	"github.com/ava-labs/avalanchego/utils/logging"
	"go.uber.org/zap"

	"github.com/ava-labs/hypersdk/pubsub"
	"github.com/ava-labs/hypersdk/verifharness/emit"
)

type opIn struct {
	T string `json:"t"`           // "s" send, "t" timer, "c" close, "r" recv
	M string `json:"m,omitempty"` // send: message, hex
}

type input struct {
	Cap int      `json:"cap"`
	Max int      `json:"max"`
	Ops []opIn   `json:"ops"`
	Raw []string `json:"raw,omitempty"` // extra byte strings (hex) to run through ParseBatchMessage
	Race bool    `json:"race,omitempty"` // force the schedule: timer fires while Close holds the mutex
	Gen string   `json:"gen,omitempty"`
}

type obsOut struct {
	Code int    `json:"code"`
	QLen int    `json:"qlen"`
	Drop bool   `json:"drop"`
	Recv *string `json:"recv,omitempty"`
}

type mirror struct {
	input
	Obs      []obsOut `json:"obs"`
	D        string   `json:"timer_d"`
	RaceCode *int     `json:"race_code,omitempty"`
}

// recLogger counts the two debug lines of message_buffer.go that reveal a dropped batch and a timer flush.
type recLogger struct {
	logging.NoLog
	drops atomic.Int64
	fired atomic.Int64
	// race mode: how long the "dropped pending message" line (logged by clearPending while the
	// caller holds the buffer mutex) takes to return
	dropDelay time.Duration
}

func (l *recLogger) Debug(msg string, _ ...zap.Field) {
	switch msg {
	case "dropped pending message":
		l.drops.Add(1)
		if l.dropDelay > 0 {
			time.Sleep(l.dropDelay)
		}
	case "sent messages":
		l.fired.Add(1)
	}
}

const (
	codeOK       = 0
	codeClosed   = 1
	codeTooLarge = 2
	codeEmpty    = 3
	codeHang     = 7
	codeOther    = 9
)

func errCode(err error) int {
	switch {
	case err == nil:
		return codeOK
	case errors.Is(err, pubsub.ErrClosed):
		return codeClosed
	case errors.Is(err, pubsub.ErrMessageTooLarge):
		return codeTooLarge
	}
	return codeOther
}

// number of timer waits that ended without the timer firing (only under a broken implementation)
var timerMisses atomic.Int64

// closeRace forces: Send (arms the timer, D), Close: takes the mutex, clearPending finds the queue full
// (capacity 0) and logs "dropped pending message"; the logger keeps that call busy until the timer has
// fired, so the dispatcher goroutine is inside the timer callback waiting for the mutex when Close
// reaches pendingTimer.Stop(). Returns 0 if Close returned, 7 if it did not.
func closeRace() int {
	for _, delay := range []time.Duration{300 * time.Millisecond, time.Second, 3 * time.Second} {
		log := &recLogger{dropDelay: delay}
		mb := pubsub.NewMessageBuffer(log, 0, 100, 2*time.Millisecond)
		if err := mb.Send([]byte{1}); err != nil {
			return codeOther
		}
		done := make(chan struct{})
		go func() { _ = mb.Close(); close(done) }()
		select {
		case <-done:
		case <-time.After(delay + 3*time.Second):
			return codeHang
		}
	}
	return codeOK
}

type execOp struct {
	t string
	m []byte
}

type execObs struct {
	code int
	qlen int
	drop bool
	recv []byte
	has  bool
}

// execute runs ops (followed by a final Close and a full drain) on a fresh buffer with timer D.
// safe=false: some operation finished too late to exclude a race with the timer; the run is void.
func execute(in input, ops []execOp, d time.Duration) (all []execOp, obs []execObs, safe bool, hang bool) {
	log := &recLogger{}
	mb := pubsub.NewMessageBuffer(log, in.Cap, in.Max, d)
	safe = true
	pendingCount := 0 // accepted sends since the last observed flush (derived from observations only)
	closed := false
	burstStart := time.Now()
	doOp := func(o execOp) execObs {
		if pendingCount == 0 {
			burstStart = time.Now() // no timer is armed
		}
		qBefore := len(mb.Queue)
		dropsBefore := log.drops.Load()
		var ob execObs
		switch o.t {
		case "s":
			done := make(chan error, 1)
			go func() { done <- mb.Send(o.m) }()
			select {
			case err := <-done:
				ob.code = errCode(err)
			case <-time.After(5 * time.Second):
				ob.code = codeHang
				hang = true
			}
		case "t":
			if pendingCount > 0 && !closed {
				firedBefore := log.fired.Load()
				wait := d + 3*time.Second
				if timerMisses.Load() >= 3 {
					wait = d + 100*time.Millisecond // the timer path is already known to be broken
				}
				deadline := time.Now().Add(wait)
				for log.fired.Load() == firedBefore && time.Now().Before(deadline) {
					time.Sleep(200 * time.Microsecond)
				}
				if log.fired.Load() == firedBefore {
					timerMisses.Add(1)
				}
				// either way the timer is not armed any more (or never will fire)
				burstStart = time.Now()
			}
		case "c":
			done := make(chan error, 1)
			go func() { done <- mb.Close() }()
			select {
			case err := <-done:
				ob.code = errCode(err)
				if err == nil {
					closed = true
				}
			case <-time.After(5 * time.Second):
				ob.code = codeHang
				hang = true
			}
		case "r":
			select {
			case x, ok := <-mb.Queue:
				if ok {
					ob.code, ob.recv, ob.has = codeOK, x, true
				} else {
					ob.code = codeClosed
				}
			default:
				ob.code = codeEmpty
			}
		}
		if o.t != "t" && time.Since(burstStart) > d/2 {
			safe = false
		}
		ob.qlen = len(mb.Queue)
		ob.drop = log.drops.Load() != dropsBefore
		flushed := ob.drop || ob.qlen > qBefore
		switch o.t {
		case "s":
			if ob.code == codeOK {
				if flushed {
					pendingCount = 1
				} else {
					pendingCount++
				}
			}
		case "t", "c":
			if flushed || o.t == "c" {
				pendingCount = 0
			}
		}
		return ob
	}
	for _, o := range ops {
		all = append(all, o)
		obs = append(obs, doOp(o))
		if hang || !safe {
			break
		}
	}
	if hang {
		return all, obs, safe, hang
	}
	// final Close (if still open) and drain
	if !closed && safe {
		o := execOp{t: "c"}
		all = append(all, o)
		obs = append(obs, doOp(o))
	}
	if !safe || hang {
		if !closed {
			go func() { _ = mb.Close() }()
		}
		return all, obs, safe, hang
	}
	for i := 0; i < in.Cap+3; i++ {
		o := execOp{t: "r"}
		all = append(all, o)
		ob := doOp(o)
		obs = append(obs, ob)
		if ob.code != codeOK {
			break
		}
	}
	return all, obs, true, hang
}

func parseImpl(x []byte) (string, bool) {
	msgs, err := pubsub.ParseBatchMessage(x)
	if err != nil {
		return "(@None (list (list N)))", false
	}
	return emit.Some(emit.BytesList(msgs)), true
}

func corrupt(x []byte, k int) []byte {
	y := append([]byte{}, x...)
	switch k % 9 {
	case 0:
		if len(y) > 0 {
			y = y[:len(y)-1]
		}
	case 1:
		y = append(y, 0x0a)
	case 2:
		y = append(y, 0x0a, 0x00)
	case 3:
		y = append(y, 0x00)
	case 4:
		if len(y) > 0 {
			y[0] = []byte{0x08, 0x12, 0x0b, 0x02, 0x0c, 0x0d, 0x8a}[k/9%7]
		}
	case 5:
		if len(y) > 1 { // padded / lengthened length varint
			y = append([]byte{y[0], y[1] | 0x80, 0x00}, y[2:]...)
		}
	case 6:
		if len(y) > 1 {
			y[1]++
		}
	case 7:
		y = append(y, 0x12, 0x00)
	default:
		y = append([]byte{0x0a, 0x00}, y...)
	}
	return y
}

func run(in input, r *rand.Rand) emit.Case {
	ops := make([]execOp, len(in.Ops))
	for i, o := range in.Ops {
		ops[i].t = o.T
		if o.T == "s" {
			ops[i].m, _ = hex.DecodeString(o.M)
			if ops[i].m == nil {
				ops[i].m = []byte{}
			}
		}
	}
	var all []execOp
	var obs []execObs
	hang := false
	d := 20 * time.Millisecond
	if len(ops) > 0 {
		for attempt := 0; ; attempt++ {
			var safe bool
			all, obs, safe, hang = execute(in, ops, d)
			if safe || hang || attempt >= 6 {
				break
			}
			d *= 2
		}
	}
	// Coq terms
	coqOps := make([]string, len(all))
	for i, o := range all {
		switch o.t {
		case "s":
			coqOps[i] = emit.App("OSend", emit.Bytes(o.m))
		case "t":
			coqOps[i] = "OTimer"
		case "c":
			coqOps[i] = "OClose"
		default:
			coqOps[i] = "ORecv"
		}
	}
	coqObs := make([]string, len(obs))
	m := mirror{input: in, D: d.String()}
	var parsed []string
	seen := map[string]bool{}
	addParsed := func(x []byte) bool {
		if seen[string(x)] {
			_, ok := parseImpl(x)
			return ok
		}
		seen[string(x)] = true
		p, ok := parseImpl(x)
		parsed = append(parsed, emit.Pair(emit.Bytes(x), p))
		return ok
	}
	sig := "pubsub-batching"
	nrecv := 0
	// the driver's own bookkeeping of what must come out, used only to name the failure class:
	// cur = accepted since the last observed flush; expected = messages of the batches enqueued
	var cur, expected, emitted [][]byte
	qPrev := 0
	timerMissed := false
	for i, ob := range obs {
		recv := "(@None (list N))"
		oo := obsOut{Code: ob.code, QLen: ob.qlen, Drop: ob.drop}
		if ob.has {
			recv = emit.Some(emit.Bytes(ob.recv))
			h := hex.EncodeToString(ob.recv)
			oo.Recv = &h
			nrecv++
			if len(ob.recv) > in.Max {
				sig = "batch-exceeds-max-size"
			}
			if !addParsed(ob.recv) {
				sig = "batch-does-not-decode"
			} else {
				ms, _ := pubsub.ParseBatchMessage(ob.recv)
				emitted = append(emitted, ms...)
			}
		}
		flushed := all[i].t != "r" && (ob.drop || ob.qlen > qPrev)
		if flushed {
			if !ob.drop {
				expected = append(expected, cur...)
			}
			cur = nil
		}
		if all[i].t == "s" && ob.code == codeOK {
			cur = append(cur, all[i].m)
		}
		if all[i].t == "t" && !flushed && len(cur) > 0 {
			timerMissed = true
		}
		qPrev = ob.qlen
		coqObs[i] = emit.App("mkobs", emit.N(uint64(ob.code)), emit.N(uint64(ob.qlen)), emit.Bool(ob.drop), recv)
		m.Obs = append(m.Obs, oo)
	}
	if sig == "pubsub-batching" && !hang {
		same := len(expected) == len(emitted)
		for i := 0; same && i < len(expected); i++ {
			same = string(expected[i]) == string(emitted[i])
		}
		switch {
		case timerMissed:
			sig = "timer-did-not-flush-pending-messages"
		case !same:
			sig = "messages-lost-duplicated-or-reordered"
		}
	}
	if hang {
		sig = "call-hung"
	}
	// corrupted variants of received batches and explicit raw inputs: parse correspondence only
	k := 0
	for i, ob := range obs {
		if ob.has && (i%2 == 0 || len(obs) < 12) {
			addParsed(corrupt(ob.recv, r.Intn(63)))
			k++
			if k >= 4 {
				break
			}
		}
	}
	for _, h := range in.Raw {
		x, _ := hex.DecodeString(h)
		if x == nil {
			x = []byte{}
		}
		addParsed(x)
	}
	race := "(@None N)"
	if in.Race {
		rc := closeRace()
		m.RaceCode = &rc
		race = emit.Some(emit.N(uint64(rc)))
		if rc != codeOK {
			sig = "close-deadlocks-when-timer-fires-during-close"
		}
	}
	coq := emit.App("mk", emit.N(uint64(in.Cap)), emit.N(uint64(in.Max)), emit.List("op", coqOps), emit.List("obs", coqObs),
		emit.List("list N * option (list (list N))", parsed), race)
	kind := in.Gen
	if kind == "" {
		kind = "replay"
	}
	return emit.Case{Coq: coq, JSON: m, Nontrivial: nrecv >= 2 || len(in.Raw) > 0 || in.Race, Kind: kind, Sig: sig}
}

// ------------------------------------------------------------------------------------------ generators

var alphabet = []byte{0x0a, 0x00, 0x80, 0xff, 0x01, 0x7f, 0x12, 0x05}

func varintLen(n int) int {
	l := 1
	for n >= 128 {
		n >>= 7
		l++
	}
	return l
}

func entrySize(n int) int { return 1 + varintLen(n) + n }

func mkMsg(r *rand.Rand, n int, seq int) []byte {
	if n < 0 {
		n = 0
	}
	b := make([]byte, n)
	for i := range b {
		b[i] = alphabet[r.Intn(len(alphabet))]
	}
	if n > 0 {
		b[0] = byte(seq) // distinct messages: reordering / duplication shows
	}
	return b
}

func gen(r *rand.Rand) input {
	in := input{}
	if r.Intn(12) == 0 {
		// raw parse inputs only
		in.Gen = "rawparse"
		n := 1 + r.Intn(4)
		raw := []byte{0x0a, 0x00, 0x01, 0x02, 0x80, 0x12, 0x08, 0x0b, 0xff, 0x0a, 0x0a, 0x01, 0x0d, 0x0c}
		for i := 0; i < n; i++ {
			b := make([]byte, r.Intn(9))
			for j := range b {
				b[j] = raw[r.Intn(len(raw))]
			}
			if r.Intn(3) == 0 {
				// well-formed prefix
				b = append(pubsub.CreateBatchMessage([][]byte{mkMsg(r, r.Intn(3), i), mkMsg(r, r.Intn(3), i+1)}), b[:len(b)/2]...)
			}
			in.Raw = append(in.Raw, hex.EncodeToString(b))
		}
		return in
	}
	in.Cap = []int{1, 1, 2, 2, 3, 0, 4}[r.Intn(7)]
	big := r.Intn(7) == 0
	if big {
		in.Gen = "varint-boundary"
		in.Max = []int{129, 130, 131, 132, 133, 258, 260, 262}[r.Intn(8)]
	} else {
		in.Gen = "small"
		in.Max = 2 + r.Intn(13)
		if r.Intn(5) == 0 {
			in.Max = []int{2, 3, 10, 14, 13}[r.Intn(5)]
		}
	}
	nops := 1 + r.Intn(40)
	if big {
		nops = 1 + r.Intn(10)
	}
	// weights
	wTimer, wRecv, wClose := 8+r.Intn(10), r.Intn(25), r.Intn(4)
	seq := 1
	pend := 0 // generator's own estimate of the pending encoded size, to aim at the boundary
	for i := 0; i < nops; i++ {
		k := r.Intn(100)
		switch {
		case k < wTimer:
			in.Ops = append(in.Ops, opIn{T: "t"})
			pend = 0
		case k < wTimer+wRecv:
			in.Ops = append(in.Ops, opIn{T: "r"})
		case k < wTimer+wRecv+wClose:
			in.Ops = append(in.Ops, opIn{T: "c"})
		default:
			var n int
			room := in.Max - pend // encoded bytes left in the current batch
			switch r.Intn(10) {
			case 0: // exactly fills the batch
				n = room - 2
			case 1: // one byte too many for the current batch
				n = room - 1
			case 2: // one byte short
				n = room - 3
			case 3: // largest acceptable message
				for n = in.Max; n > 0 && entrySize(n) > in.Max; n-- {
				}
			case 4: // smallest rejected message
				for n = 0; entrySize(n) <= in.Max; n++ {
				}
			case 5:
				n = 0
			case 6:
				if big {
					n = []int{126, 127, 128, 129}[r.Intn(4)]
				} else {
					n = 1
				}
			default:
				if big {
					n = []int{0, 1, 2, 60, 126, 127, 128}[r.Intn(7)]
				} else {
					n = r.Intn(in.Max)
				}
			}
			if n < 0 {
				n = 0
			}
			if n > 300 {
				n = 300
			}
			msg := mkMsg(r, n, seq)
			seq++
			in.Ops = append(in.Ops, opIn{T: "s", M: hex.EncodeToString(msg)})
			e := entrySize(n)
			if e <= in.Max {
				if pend+e > in.Max {
					pend = e
				} else {
					pend += e
				}
			}
		}
	}
	return in
}

// ------------------------------------------------------------------------------------------ main

func TestDriver(t *testing.T) {
	env := emit.GetEnv()
	if env.Out == "" {
		t.Skip("VERIF_OUT not set")
	}
	w, err := emit.NewWriter(env.Out)
	if err != nil {
		t.Fatal(err)
	}
	defer w.Close()
	var inputs []input
	if env.Mode == "replay" {
		raws, err := emit.ReadReplay(env.Replay)
		if err != nil {
			t.Fatal(err)
		}
		for _, raw := range raws {
			var in input
			if err := json.Unmarshal(raw, &in); err != nil {
				t.Fatal(err)
			}
			inputs = append(inputs, in)
		}
	} else {
		r := env.Rand()
		if env.Tier == "thorough" {
			// every sequence of <= 4 sends over sizes {0,1,max-3,max-2} followed by timer/close, small max
			for _, max := range []int{4, 6} {
				sizes := []int{0, 1, max - 3, max - 2}
				var rec func(ops []opIn, depth int)
				rec = func(ops []opIn, depth int) {
					inputs = append(inputs, input{Cap: 2, Max: max, Ops: append(append([]opIn{}, ops...), opIn{T: "t"}), Gen: "exhaustive"})
					if depth == 4 {
						return
					}
					for _, s := range sizes {
						rec(append(ops, opIn{T: "s", M: hex.EncodeToString(mkMsg(r, s, depth+1))}), depth+1)
					}
				}
				rec(nil, 0)
			}
		}
		inputs = append(inputs, input{Race: true, Gen: "close-during-timer-callback"})
		for i := 0; i < env.N; i++ {
			inputs = append(inputs, gen(r))
		}
	}
	// run cases in parallel (each on its own buffer), emit in input order
	out := make([]emit.Case, len(inputs))
	seeds := make([]int64, len(inputs))
	sr := rand.New(rand.NewSource(env.Seed + 7919)) //nolint:gosec
	for i := range seeds {
		seeds[i] = sr.Int63()
	}
	var wg sync.WaitGroup
	sem := make(chan struct{}, 6)
	for i := range inputs {
		wg.Add(1)
		sem <- struct{}{}
		go func(i int) {
			defer wg.Done()
			defer func() { <-sem }()
			out[i] = run(inputs[i], rand.New(rand.NewSource(seeds[i]))) //nolint:gosec
		}(i)
	}
	wg.Wait()
	for _, c := range out {
		_ = w.Put(c)
	}
	_ = fmt.Sprint
}
