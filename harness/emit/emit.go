// Package emit: helpers shared by all drivers — PRNG, Coq term printing, case output.
//
// A driver produces a stream of cases. Each case is written as one JSON line:
//
//	{"coq": "<Gallina term of type case>", "json": {...mirror for replay...},
//	 "nontrivial": bool, "kind": "<generator class>", "sig": "<finding signature if the property oracle fails>"}
//
// bin/check assembles the "coq" fields into cases_<k>.v, evaluates check_case/spec_ok with
// vm_compute and maps the failing indices back to the JSON lines.
package emit

import (
	"bufio"
	"encoding/json"
	"fmt"
	"math/rand"
	"os"
	"strconv"
	"strings"
)

type Case struct {
	Coq        string      `json:"coq"`
	JSON       interface{} `json:"json"`
	Nontrivial bool        `json:"nontrivial"`
	Kind       string      `json:"kind"`
	Sig        string      `json:"sig,omitempty"`
}

// Env is the run configuration bin/check passes through the environment.
type Env struct {
	Prop   string // VERIF_PROP  : property id this run serves (a driver may serve several)
	Seed   int64  // VERIF_SEED
	N      int    // VERIF_N     : number of generated cases wanted
	Out    string // VERIF_OUT   : path of the JSONL file to write
	Replay string // VERIF_REPLAY: path of a JSON(L) file of inputs to re-run instead of generating
	Mode   string // VERIF_MODE  : "gen" (default) | "replay" | "shrink"
	Tier   string // VERIF_TIER
}

func GetEnv() Env {
	e := Env{
		Prop:   os.Getenv("VERIF_PROP"),
		Out:    os.Getenv("VERIF_OUT"),
		Replay: os.Getenv("VERIF_REPLAY"),
		Mode:   os.Getenv("VERIF_MODE"),
		Tier:   os.Getenv("VERIF_TIER"),
	}
	if e.Mode == "" {
		e.Mode = "gen"
	}
	e.Seed, _ = strconv.ParseInt(os.Getenv("VERIF_SEED"), 10, 64)
	e.N, _ = strconv.Atoi(os.Getenv("VERIF_N"))
	if e.N == 0 {
		e.N = 100
	}
	return e
}

// Rand returns the single PRNG every random choice of a run derives from.
func (e Env) Rand() *rand.Rand { return rand.New(rand.NewSource(e.Seed)) } //nolint:gosec

type Writer struct {
	f *os.File
	w *bufio.Writer
	n int
}

func NewWriter(path string) (*Writer, error) {
	f, err := os.Create(path)
	if err != nil {
		return nil, err
	}
	return &Writer{f: f, w: bufio.NewWriterSize(f, 1<<20)}, nil
}

func (w *Writer) Put(c Case) error {
	b, err := json.Marshal(c)
	if err != nil {
		return err
	}
	w.n++
	if _, err := w.w.Write(b); err != nil {
		return err
	}
	return w.w.WriteByte('\n')
}

func (w *Writer) Count() int { return w.n }

func (w *Writer) Close() error {
	if err := w.w.Flush(); err != nil {
		return err
	}
	return w.f.Close()
}

// ReadReplay reads a replay file: either JSON lines of Case (the "json" field is returned) or
// a single JSON document {"case": {...}} / {...}. Each returned element is the raw "json" mirror.
func ReadReplay(path string) ([]json.RawMessage, error) {
	data, err := os.ReadFile(path)
	if err != nil {
		return nil, err
	}
	var out []json.RawMessage
	// whole-document forms first
	var doc struct {
		Case  json.RawMessage   `json:"case"`
		Cases []json.RawMessage `json:"cases"`
	}
	if err := json.Unmarshal(data, &doc); err == nil && (doc.Case != nil || doc.Cases != nil) {
		if doc.Case != nil {
			out = append(out, doc.Case)
		}
		out = append(out, doc.Cases...)
		return out, nil
	}
	for _, line := range strings.Split(string(data), "\n") {
		line = strings.TrimSpace(line)
		if line == "" {
			continue
		}
		var c struct {
			JSON json.RawMessage `json:"json"`
		}
		if err := json.Unmarshal([]byte(line), &c); err != nil {
			return nil, err
		}
		if c.JSON != nil {
			out = append(out, c.JSON)
		} else {
			out = append(out, json.RawMessage(line))
		}
	}
	return out, nil
}

// ---- Coq term printers -------------------------------------------------------------------

func N(v uint64) string   { return strconv.FormatUint(v, 10) + "%N" }
func Nat(v int) string    { return strconv.Itoa(v) + "%nat" }
func Bool(b bool) string  { if b { return "true" }; return "false" }
func Z(v int64) string {
	if v < 0 {
		return "(" + strconv.FormatInt(v, 10) + ")%Z"
	}
	return strconv.FormatInt(v, 10) + "%Z"
}

// Bytes prints a byte string as a Coq [list N].
func Bytes(b []byte) string {
	if len(b) == 0 {
		return "(@nil N)"
	}
	var sb strings.Builder
	sb.WriteString("[")
	for i, x := range b {
		if i > 0 {
			sb.WriteString(";")
		}
		sb.WriteString(strconv.Itoa(int(x)))
	}
	sb.WriteString("]%N")
	return sb.String()
}

// List prints a list of already printed terms; ty is the element type, needed for the empty list.
func List(ty string, items []string) string {
	if len(items) == 0 {
		return "(@nil (" + ty + "))"
	}
	return "[" + strings.Join(items, "; ") + "]"
}

func Option(ty string, item *string) string {
	if item == nil {
		return "(@None (" + ty + "))"
	}
	return "(Some " + *item + ")"
}

func Some(item string) string { return "(Some " + item + ")" }

func App(f string, args ...string) string {
	return "(" + f + " " + strings.Join(args, " ") + ")"
}

func Pair(a, b string) string { return fmt.Sprintf("(%s, %s)", a, b) }

func BytesList(bs [][]byte) string {
	items := make([]string, len(bs))
	for i, b := range bs {
		items[i] = Bytes(b)
	}
	return List("list N", items)
}

// Str prints a Go string as a Coq string literal (bytes as they are; '"' doubled), scoped.
func Str(s string) string {
	return "\"" + strings.ReplaceAll(s, "\"", "\"\"") + "\"%string"
}

// ZBig prints an arbitrary decimal integer literal (already formatted, may start with '-') as a Coq Z.
func ZBig(dec string) string {
	if strings.HasPrefix(dec, "-") {
		return "(" + dec + ")%Z"
	}
	return dec + "%Z"
}
