package main

// Statements.  A statement list is translated in continuation-passing style: [k] produces the code for
// "control falls off the end of this list".  Local variables become let-bound names (same spelling as in
// Go; shadowing an outer variable is rejected so that Go scoping and Gallina scoping coincide).

import (
	"fmt"
	"go/ast"
	"go/constant"
	"go/token"
	"strings"
)

type varInfo struct {
	name  string
	typ   Type
	coq   string
	byRef bool // parameter of type *[n]T: usable only as the base of index / slice / len and as an assignment target
}

type scopes struct{ stack []map[string]*varInfo }

func (s *scopes) push() { s.stack = append(s.stack, map[string]*varInfo{}) }
func (s *scopes) pop() map[string]*varInfo {
	top := s.stack[len(s.stack)-1]
	s.stack = s.stack[:len(s.stack)-1]
	return top
}
func (s *scopes) lookup(name string) *varInfo {
	if s == nil {
		return nil
	}
	for i := len(s.stack) - 1; i >= 0; i-- {
		if v, ok := s.stack[i][name]; ok {
			return v
		}
	}
	return nil
}
func (s *scopes) snapshot() []map[string]*varInfo {
	var out []map[string]*varInfo
	for _, m := range s.stack {
		c := map[string]*varInfo{}
		for k, v := range m {
			c[k] = v
		}
		out = append(out, c)
	}
	return out
}
func (s *scopes) inTop(name string) *varInfo { return s.stack[len(s.stack)-1][name] }

type kont func() (string, error)

type ctx struct {
	loop  bool
	loopK kont // "continue": fall through to the next iteration
}

func indent(s string) string {
	return "  " + strings.ReplaceAll(s, "\n", "\n  ")
}

// ret / panicTerm: how "return e" and a run-time panic are written in the current context.
func (tr *translator) ret(c ctx, e string) string {
	if tr.cur.partial {
		e = "(Some " + e + ")"
	}
	if c.loop {
		return "(Return " + e + ")"
	}
	return e
}

func (tr *translator) panicTerm(c ctx, at ast.Node) (string, error) {
	tr.cur.panicked = true
	if !tr.cur.partial {
		return "", tr.errf(at, "internal error: panic branch in a function classified as total")
	}
	if c.loop {
		return "(Return None)", nil
	}
	return "None", nil
}

// guard wraps code in the check that the evaluation of its expressions does not panic.
func (tr *translator) guard(c ctx, at ast.Node, safe []string, code string) (string, error) {
	if len(safe) == 0 {
		return code, nil
	}
	p, err := tr.panicTerm(c, at)
	if err != nil {
		return "", err
	}
	return fmt.Sprintf("if %s then\n%s\nelse %s", conj(safe), indent(code), p), nil
}

func (tr *translator) declare(at ast.Node, name string, t Type) (*varInfo, error) {
	sc := tr.cur.sc
	if name == "_" {
		return &varInfo{name: "_", typ: t, coq: "_"}, nil
	}
	if sc.lookup(name) != nil {
		return nil, tr.errf(at, "declaration of %s shadows a variable of an enclosing scope (not supported)", name)
	}
	vi := &varInfo{name: name, typ: t, coq: coqIdent(name)}
	sc.stack[len(sc.stack)-1][name] = vi
	return vi, nil
}

func (tr *translator) block(list []ast.Stmt, c ctx, k kont) (string, error) {
	sc := tr.cur.sc
	sc.push()
	popped := false
	s, err := tr.stmts(list, c, func() (string, error) {
		saved := sc.pop()
		popped = true
		r, err := k()
		sc.stack = append(sc.stack, saved)
		popped = false
		return r, err
	})
	if !popped {
		sc.pop()
	}
	return s, err
}

func (tr *translator) stmts(list []ast.Stmt, c ctx, k kont) (string, error) {
	if len(list) == 0 {
		return k()
	}
	rest := func() (string, error) { return tr.stmts(list[1:], c, k) }
	return tr.stmt(list[0], c, rest)
}

func mayFall(s ast.Stmt) bool {
	switch x := s.(type) {
	case *ast.ReturnStmt:
		return false
	case *ast.BranchStmt:
		return false
	case *ast.BlockStmt:
		return mayFallList(x.List)
	case *ast.IfStmt:
		if x.Else == nil {
			return true
		}
		return mayFallList(x.Body.List) || mayFall(x.Else)
	case *ast.SwitchStmt:
		hasDefault := false
		for _, cc := range x.Body.List {
			cl := cc.(*ast.CaseClause)
			if cl.List == nil {
				hasDefault = true
			}
			if mayFallList(cl.Body) {
				return true
			}
		}
		return !hasDefault
	}
	return true
}

func mayFallList(l []ast.Stmt) bool {
	for _, s := range l {
		if !mayFall(s) {
			return false
		}
	}
	return true
}

// assignedOuter: the variables currently in scope that are assigned somewhere inside the nodes, in order of
// first occurrence.
func (tr *translator) assignedOuter(nodes ...ast.Node) []*varInfo {
	var out []*varInfo
	seen := map[string]bool{}
	add := func(e ast.Expr) {
		for {
			switch x := e.(type) {
			case *ast.ParenExpr:
				e = x.X
				continue
			case *ast.IndexExpr:
				e = x.X
				continue
			case *ast.Ident:
				if vi := tr.cur.sc.lookup(x.Name); vi != nil && !seen[x.Name] {
					seen[x.Name] = true
					out = append(out, vi)
				}
			}
			return
		}
	}
	for _, n := range nodes {
		if n == nil {
			continue
		}
		ast.Inspect(n, func(n ast.Node) bool {
			switch x := n.(type) {
			case *ast.AssignStmt:
				for _, l := range x.Lhs {
					add(l)
				}
			case *ast.IncDecStmt:
				add(x.X)
			case *ast.RangeStmt:
				if x.Tok == token.ASSIGN {
					if x.Key != nil {
						add(x.Key)
					}
					if x.Value != nil {
						add(x.Value)
					}
				}
			case *ast.UnaryExpr:
				if x.Op == token.AND {
					add(x.X) // &v: rejected later, but count it as an assignment to be safe
				}
			}
			return true
		})
	}
	return out
}

func tuplePat(vs []*varInfo) string {
	switch len(vs) {
	case 0:
		return "tt"
	case 1:
		return vs[0].coq
	}
	var n []string
	for _, v := range vs {
		n = append(n, v.coq)
	}
	return "(" + strings.Join(n, ", ") + ")"
}

func (tr *translator) binders(vs []*varInfo) (string, error) {
	if len(vs) == 0 {
		return "(_ : unit)", nil
	}
	var b []string
	for _, v := range vs {
		ct, err := coqType(v.typ)
		if err != nil {
			return "", err
		}
		b = append(b, fmt.Sprintf("(%s : %s)", v.coq, ct))
	}
	return strings.Join(b, " "), nil
}

func (tr *translator) stmt(s ast.Stmt, c ctx, rest kont) (string, error) {
	switch x := s.(type) {
	case *ast.ReturnStmt:
		return tr.returnStmt(x, c)
	case *ast.AssignStmt:
		return tr.assign(x, c, rest)
	case *ast.IncDecStmt:
		one := &ast.BasicLit{Kind: token.INT, Value: "1", ValuePos: x.Pos()}
		op := token.ADD_ASSIGN
		if x.Tok == token.DEC {
			op = token.SUB_ASSIGN
		}
		return tr.assign(&ast.AssignStmt{Lhs: []ast.Expr{x.X}, Tok: op, TokPos: x.TokPos, Rhs: []ast.Expr{one}}, c, rest)
	case *ast.DeclStmt:
		return tr.declStmt(x, c, rest)
	case *ast.BlockStmt:
		return tr.block(x.List, c, rest)
	case *ast.IfStmt:
		if x.Init != nil {
			// if init; cond {...}  ==  { init; if cond {...} }
			inner := *x
			inner.Init = nil
			return tr.block([]ast.Stmt{x.Init, &inner}, c, rest)
		}
		return tr.ifStmt(x, c, rest)
	case *ast.SwitchStmt:
		return tr.switchStmt(x, c, rest)
	case *ast.ForStmt:
		return tr.forStmt(x, c, rest)
	case *ast.RangeStmt:
		return tr.rangeStmt(x, c, rest)
	case *ast.BranchStmt:
		if x.Tok == token.CONTINUE && x.Label == nil && c.loop {
			return c.loopK()
		}
		return "", tr.errf(s, "unsupported branch statement %s", x.Tok)
	case *ast.EmptyStmt:
		return rest()
	case *ast.ExprStmt:
		return tr.exprStmt(x, c, rest)
	}
	return "", tr.errf(s, "unsupported statement %T", s)
}

func (tr *translator) returnStmt(x *ast.ReturnStmt, c ctx) (string, error) {
	fn := tr.cur
	if len(x.Results) == 0 {
		if len(fn.results) == 0 && len(fn.refOut) > 0 {
			return tr.ret(c, tuplePat(fn.refOut)), nil
		}
		return "", tr.errf(x, "return without operands")
	}
	// return f(...) where f returns all the results
	if len(x.Results) == 1 && len(fn.refOut) == 0 {
		if call, ok := stripParens(x.Results[0]).(*ast.CallExpr); ok {
			if v, _, err := tr.constEval(fn.file, fn.sc, call); err == nil && v == nil {
				r, partial, err := tr.call(call)
				if err != nil {
					return "", err
				}
				if !sameType(r.t, fn.resType) {
					return "", tr.errf(x, "return operand of type %s in a function returning %s", r.t, fn.resType)
				}
				if partial {
					p, err := tr.panicTerm(c, x)
					if err != nil {
						return "", err
					}
					code := fmt.Sprintf("match %s with\n| None => %s\n| Some r' => %s\nend", r.s, p, tr.ret(c, "r'"))
					return tr.guard(c, x, r.safe, code)
				}
				return tr.guard(c, x, r.safe, tr.ret(c, r.s))
			}
		}
	}
	if len(x.Results) != len(fn.results) {
		return "", tr.errf(x, "return with %d operands in a function with %d results", len(x.Results), len(fn.results))
	}
	var parts, safe []string
	for i, e := range x.Results {
		v, err := tr.expr(e)
		if err != nil {
			return "", err
		}
		if v, err = tr.conv(e, v, fn.results[i]); err != nil {
			return "", err
		}
		parts = append(parts, v.s)
		safe = append(safe, v.safe...)
	}
	for _, r := range fn.refOut {
		parts = append(parts, r.coq)
	}
	val := parts[0]
	if len(parts) > 1 {
		val = "(" + strings.Join(parts, ", ") + ")"
	}
	return tr.guard(c, x, safe, tr.ret(c, val))
}

func stripParens(e ast.Expr) ast.Expr {
	for {
		p, ok := e.(*ast.ParenExpr)
		if !ok {
			return e
		}
		e = p.X
	}
}

var assignOps = map[token.Token]token.Token{
	token.ADD_ASSIGN: token.ADD, token.SUB_ASSIGN: token.SUB, token.MUL_ASSIGN: token.MUL, token.QUO_ASSIGN: token.QUO,
	token.REM_ASSIGN: token.REM, token.AND_ASSIGN: token.AND, token.OR_ASSIGN: token.OR, token.XOR_ASSIGN: token.XOR,
	token.SHL_ASSIGN: token.SHL, token.SHR_ASSIGN: token.SHR, token.AND_NOT_ASSIGN: token.AND_NOT,
}

// lhsTarget describes one assignment target: a variable (new or existing), the blank identifier, or an
// element of an array variable.
type lhsTarget struct {
	vi    *varInfo // variable (for an element assignment: the array)
	index *ex      // non-nil: element assignment a[i] = v
	tmp   string   // name bound by the let before the element update
	isNew bool
	name  string
}

func (tr *translator) assign(x *ast.AssignStmt, c ctx, rest kont) (string, error) {
	fn := tr.cur
	// op-assignment: x op= e  ==  x = x op e   (x is a variable: evaluated once in both readings)
	if op, ok := assignOps[x.Tok]; ok {
		if len(x.Lhs) != 1 || len(x.Rhs) != 1 {
			return "", tr.errf(x, "bad operator assignment")
		}
		id, ok := stripParens(x.Lhs[0]).(*ast.Ident)
		if !ok {
			return "", tr.errf(x, "operator assignment to a non-variable")
		}
		vi := fn.sc.lookup(id.Name)
		if vi == nil {
			return "", tr.errf(x, "assignment to unknown variable %s", id.Name)
		}
		b, err := tr.expr(x.Rhs[0])
		if err != nil {
			return "", err
		}
		v, err := tr.binop(x, op, ex{s: vi.coq, t: vi.typ}, b, x.Rhs[0])
		if err != nil {
			return "", err
		}
		r, err := rest()
		if err != nil {
			return "", err
		}
		return tr.guard(c, x, v.safe, fmt.Sprintf("let %s := %s in\n%s", vi.coq, v.s, r))
	}
	if x.Tok != token.DEFINE && x.Tok != token.ASSIGN {
		return "", tr.errf(x, "unsupported assignment operator %s", x.Tok)
	}
	// right-hand sides
	var rhs []ex
	var rhsTypes []Type
	partialCall := false
	tupleCall := false
	rhsFromCall := false
	if len(x.Rhs) == 1 && len(x.Lhs) >= 1 {
		if call, ok := stripParens(x.Rhs[0]).(*ast.CallExpr); ok {
			if v, _, err := tr.constEval(fn.file, fn.sc, call); err == nil && v == nil {
				r, partial, err := tr.call(call)
				if err != nil {
					return "", err
				}
				partialCall = partial
				rhsFromCall = true
				rhs = []ex{r}
				if tt, ok := r.t.(TTuple); ok {
					tupleCall = true
					rhsTypes = tt.Elems
				} else {
					rhsTypes = []Type{r.t}
				}
			}
		}
	}
	if rhs == nil {
		for _, e := range x.Rhs {
			v, err := tr.expr(e)
			if err != nil {
				return "", err
			}
			rhs = append(rhs, v)
			rhsTypes = append(rhsTypes, v.t)
		}
	}
	if len(rhsTypes) != len(x.Lhs) {
		return "", tr.errf(x, "assignment of %d values to %d targets", len(rhsTypes), len(x.Lhs))
	}
	// targets
	var safe []string
	for _, r := range rhs {
		safe = append(safe, r.safe...)
	}
	targets := make([]lhsTarget, len(x.Lhs))
	anyNew := false
	for i, l := range x.Lhs {
		l = stripParens(l)
		switch lx := l.(type) {
		case *ast.Ident:
			if lx.Name == "_" {
				targets[i] = lhsTarget{name: "_"}
				continue
			}
			if x.Tok == token.DEFINE {
				if vi := fn.sc.inTop(lx.Name); vi != nil {
					targets[i] = lhsTarget{vi: vi, name: lx.Name}
				} else {
					targets[i] = lhsTarget{isNew: true, name: lx.Name}
					anyNew = true
				}
			} else {
				vi := fn.sc.lookup(lx.Name)
				if vi == nil {
					return "", tr.errf(l, "assignment to %s, which is not a local variable", lx.Name)
				}
				targets[i] = lhsTarget{vi: vi, name: lx.Name}
			}
		case *ast.IndexExpr:
			if x.Tok == token.DEFINE {
				return "", tr.errf(l, "bad := target")
			}
			id, ok := stripParens(lx.X).(*ast.Ident)
			if !ok {
				return "", tr.errf(l, "element assignment to a non-variable")
			}
			vi := fn.sc.lookup(id.Name)
			if vi == nil {
				return "", tr.errf(l, "assignment to unknown variable %s", id.Name)
			}
			if _, isArr := vi.typ.(TArray); !isArr {
				return "", tr.errf(l, "element assignment through a %s: only arrays (value types) are supported, slices alias", vi.typ)
			}
			ix, err := tr.expr(lx.Index)
			if err != nil {
				return "", err
			}
			if ix, err = tr.defaultType(lx.Index, ix); err != nil {
				return "", err
			}
			safe = append(safe, ix.safe...)
			safe = append(safe, fmt.Sprintf("(go_in_range %s %s)", vi.coq, ix.s))
			fn.fresh++
			targets[i] = lhsTarget{vi: vi, index: &ix, tmp: fmt.Sprintf("v'%d", fn.fresh), name: id.Name}
		default:
			return "", tr.errf(l, "unsupported assignment target %T", l)
		}
	}
	if x.Tok == token.DEFINE && !anyNew {
		return "", tr.errf(x, "no new variables on the left side of :=")
	}
	// types: convert untyped constants, check existing variables, declare new ones (after the RHS was translated:
	// the scope of a new variable starts after the statement)
	for i := range targets {
		t := &targets[i]
		var want Type
		switch {
		case t.name == "_":
			continue
		case t.index != nil:
			want = t.vi.typ.(TArray).Elem
		case t.isNew:
			want = nil
		default:
			want = t.vi.typ
		}
		if !rhsFromCall {
			// ordinary expressions, one per target: implicit conversion of untyped constants / nil
			v := rhs[i]
			var err error
			if want == nil {
				v, err = tr.defaultType(x.Rhs[i], v)
			} else {
				v, err = tr.conv(x.Rhs[i], v, want)
			}
			if err != nil {
				return "", err
			}
			rhs[i] = v
			rhsTypes[i] = v.t
		}
		if want != nil && !sameType(rhsTypes[i], want) {
			return "", tr.errf(x, "assignment of a %s to %s of type %s", rhsTypes[i], t.name, want)
		}
	}
	var pats []string
	for i := range targets {
		t := &targets[i]
		switch {
		case t.name == "_":
			pats = append(pats, "_")
		case t.index != nil:
			pats = append(pats, t.tmp)
		case t.isNew:
			vi, err := tr.declare(x.Lhs[i], t.name, rhsTypes[i])
			if err != nil {
				return "", err
			}
			t.vi = vi
			pats = append(pats, vi.coq)
		default:
			pats = append(pats, t.vi.coq)
		}
	}
	r, err := rest()
	if err != nil {
		return "", err
	}
	// element updates after the tuple is bound
	for i := len(targets) - 1; i >= 0; i-- {
		t := targets[i]
		if t.index != nil {
			r = fmt.Sprintf("let %s := (go_set %s %s %s) in\n%s", t.vi.coq, t.vi.coq, t.index.s, t.tmp, r)
		}
	}
	pat := pats[0]
	if len(pats) > 1 {
		pat = "'(" + strings.Join(pats, ", ") + ")"
	}
	var code string
	switch {
	case partialCall:
		p, err := tr.panicTerm(c, x)
		if err != nil {
			return "", err
		}
		mp := pats[0]
		if len(pats) > 1 {
			mp = "(" + strings.Join(pats, ", ") + ")"
		}
		code = fmt.Sprintf("match %s with\n| None => %s\n| Some %s =>\n%s\nend", rhs[0].s, p, mp, indent(r))
	case tupleCall || len(rhs) == 1:
		code = fmt.Sprintf("let %s := %s in\n%s", pat, rhs[0].s, r)
	default:
		var vs []string
		for _, v := range rhs {
			vs = append(vs, v.s)
		}
		code = fmt.Sprintf("let %s := (%s) in\n%s", pat, strings.Join(vs, ", "), r)
	}
	return tr.guard(c, x, safe, code)
}

func (tr *translator) declStmt(x *ast.DeclStmt, c ctx, rest kont) (string, error) {
	gd, ok := x.Decl.(*ast.GenDecl)
	if !ok || gd.Tok != token.VAR {
		return "", tr.errf(x, "unsupported local declaration")
	}
	type bind struct {
		vi   *varInfo
		term string
	}
	var binds []bind
	var safe []string
	for _, sp := range gd.Specs {
		vs := sp.(*ast.ValueSpec)
		var dt Type
		if vs.Type != nil {
			var err error
			if dt, err = tr.resolveType(tr.cur.file, vs.Type); err != nil {
				return "", err
			}
		}
		if len(vs.Values) != 0 && len(vs.Values) != len(vs.Names) {
			return "", tr.errf(x, "var declaration with a multi-valued initialiser")
		}
		var vals []ex
		for i := range vs.Values {
			v, err := tr.expr(vs.Values[i])
			if err != nil {
				return "", err
			}
			if dt != nil {
				v, err = tr.conv(vs.Values[i], v, dt)
			} else {
				v, err = tr.defaultType(vs.Values[i], v)
			}
			if err != nil {
				return "", err
			}
			safe = append(safe, v.safe...)
			vals = append(vals, v)
		}
		for i, n := range vs.Names {
			var term string
			t := dt
			if len(vals) > 0 {
				term, t = vals[i].s, vals[i].t
			} else {
				z, err := zeroValue(dt)
				if err != nil {
					return "", tr.errf(x, "%v", err)
				}
				term = z
			}
			vi, err := tr.declare(n, n.Name, t)
			if err != nil {
				return "", err
			}
			binds = append(binds, bind{vi, term})
		}
	}
	r, err := rest()
	if err != nil {
		return "", err
	}
	for i := len(binds) - 1; i >= 0; i-- {
		r = fmt.Sprintf("let %s := %s in\n%s", binds[i].vi.coq, binds[i].term, r)
	}
	return tr.guard(c, x, safe, r)
}

func (tr *translator) ifStmt(x *ast.IfStmt, c ctx, rest kont) (string, error) {
	cond, err := tr.expr(x.Cond)
	if err != nil {
		return "", err
	}
	if _, ok := cond.t.(TBool); !ok {
		return "", tr.errf(x.Cond, "condition of type %s", cond.t)
	}
	thenFalls := mayFallList(x.Body.List)
	elseFalls := x.Else == nil || mayFall(x.Else)
	k := rest
	header := ""
	if thenFalls && elseFalls {
		// both branches continue with the rest: bind it once as a local function of the variables that
		// the branches assign
		var elseNode ast.Node
		if x.Else != nil {
			elseNode = x.Else
		}
		mod := tr.assignedOuter(x.Body, elseNode)
		tr.cur.fresh++
		kname := fmt.Sprintf("k'%d", tr.cur.fresh)
		snap := tr.cur.sc.snapshot()
		body, err := rest()
		tr.cur.sc.stack = snap
		if err != nil {
			return "", err
		}
		bs, err := tr.binders(mod)
		if err != nil {
			return "", err
		}
		header = fmt.Sprintf("let %s := fun %s =>\n%s\nin\n", kname, bs, indent(body))
		callK := "(" + kname + " " + tuplePatArgs(mod) + ")"
		k = func() (string, error) { return callK, nil }
	}
	snap := tr.cur.sc.snapshot()
	thenCode, err := tr.block(x.Body.List, c, k)
	tr.cur.sc.stack = snap
	if err != nil {
		return "", err
	}
	var elseCode string
	switch e := x.Else.(type) {
	case nil:
		elseCode, err = k()
	case *ast.BlockStmt:
		elseCode, err = tr.block(e.List, c, k)
	case *ast.IfStmt:
		elseCode, err = tr.block([]ast.Stmt{e}, c, k)
	default:
		return "", tr.errf(x.Else, "unsupported else branch")
	}
	if err != nil {
		return "", err
	}
	code := fmt.Sprintf("%sif %s then\n%s\nelse\n%s", header, cond.s, indent(thenCode), indent(elseCode))
	return tr.guard(c, x.Cond, cond.safe, code)
}

func tuplePatArgs(vs []*varInfo) string {
	if len(vs) == 0 {
		return "tt"
	}
	var n []string
	for _, v := range vs {
		n = append(n, v.coq)
	}
	return strings.Join(n, " ")
}

// switch { case c1, c2: A; case c3: B; default: C }  ==  if c1 || c2 { A } else if c3 { B } else { C }
func (tr *translator) switchStmt(x *ast.SwitchStmt, c ctx, rest kont) (string, error) {
	if x.Init != nil || x.Tag != nil {
		return "", tr.errf(x, "switch with an init statement or a tag expression is not supported")
	}
	var deflt *ast.CaseClause
	var clauses []*ast.CaseClause
	for _, s := range x.Body.List {
		cl := s.(*ast.CaseClause)
		for _, b := range cl.Body {
			if br, ok := b.(*ast.BranchStmt); ok && (br.Tok == token.FALLTHROUGH || br.Tok == token.BREAK) {
				return "", tr.errf(br, "%s in switch is not supported", br.Tok)
			}
		}
		if cl.List == nil {
			deflt = cl
		} else {
			clauses = append(clauses, cl)
		}
	}
	var chain ast.Stmt
	if deflt != nil {
		chain = &ast.BlockStmt{List: deflt.Body, Lbrace: deflt.Pos()}
	}
	for i := len(clauses) - 1; i >= 0; i-- {
		cl := clauses[i]
		cond := cl.List[0]
		for _, e := range cl.List[1:] {
			cond = &ast.BinaryExpr{X: cond, Op: token.LOR, Y: e, OpPos: e.Pos()}
		}
		chain = &ast.IfStmt{If: cl.Pos(), Cond: cond, Body: &ast.BlockStmt{List: cl.Body, Lbrace: cl.Pos()}, Else: chain}
	}
	if chain == nil {
		return rest()
	}
	return tr.stmt(chain, c, rest)
}

// loop emits the go_for combinator: xs is the list iterated over, binder the pattern for its elements.
func (tr *translator) loop(at ast.Node, body *ast.BlockStmt, c ctx, rest kont, xs string, safe []string,
	binder string, declareIter func() error) (string, error) {
	fn := tr.cur
	state := tr.assignedOuter(body)
	stPat := tuplePat(state)
	next := "(Next " + stPat + ")"
	fn.sc.push()
	if err := declareIter(); err != nil {
		fn.sc.pop()
		return "", err
	}
	loopK := func() (string, error) { return next, nil }
	bodyCode, err := tr.block(body.List, ctx{loop: true, loopK: loopK}, loopK)
	fn.sc.pop()
	if err != nil {
		return "", err
	}
	var stBinder string
	switch len(state) {
	case 0:
		stBinder = "(_ : unit)"
	case 1:
		if stBinder, err = tr.binders(state); err != nil {
			return "", err
		}
	default:
		ct, err := coqType(TTuple{Elems: typesOf(state)})
		if err != nil {
			return "", err
		}
		stBinder = fmt.Sprintf("(st' : %s)", ct)
		bodyCode = fmt.Sprintf("let '%s := st' in\n%s", stPat, bodyCode)
	}
	r, err := rest()
	if err != nil {
		return "", err
	}
	after := r
	nextPat := stPat
	switch len(state) {
	case 0:
		nextPat = "_"
	case 1:
	default:
		nextPat = "st'"
		after = fmt.Sprintf("let '%s := st' in\n%s", stPat, r)
	}
	reraise := "r'"
	if c.loop {
		reraise = "(Return r')"
	}
	code := fmt.Sprintf("match go_for %s (fun %s %s =>\n%s) %s with\n| Next %s =>\n%s\n| Return r' => %s\nend",
		xs, binder, stBinder, indent(indent(bodyCode)), stPat, nextPat, indent(after), reraise)
	return tr.guard(c, at, safe, code)
}

func typesOf(vs []*varInfo) []Type {
	var t []Type
	for _, v := range vs {
		t = append(t, v.typ)
	}
	return t
}

// for i := lo; i < hi; i++ { body }   with body not assigning i nor any variable of hi
func (tr *translator) forStmt(x *ast.ForStmt, c ctx, rest kont) (string, error) {
	fn := tr.cur
	init, ok := x.Init.(*ast.AssignStmt)
	if !ok || init.Tok != token.DEFINE || len(init.Lhs) != 1 || len(init.Rhs) != 1 {
		return "", tr.errf(x, "for loop: the init statement must be `i := e`")
	}
	iv, ok := init.Lhs[0].(*ast.Ident)
	if !ok || iv.Name == "_" {
		return "", tr.errf(x, "for loop: bad loop variable")
	}
	cond, ok := x.Cond.(*ast.BinaryExpr)
	if !ok || (cond.Op != token.LSS && cond.Op != token.LEQ) {
		return "", tr.errf(x, "for loop: the condition must be `i < e` or `i <= e`")
	}
	if id, ok := cond.X.(*ast.Ident); !ok || id.Name != iv.Name {
		return "", tr.errf(x, "for loop: the condition must compare the loop variable")
	}
	post, ok := x.Post.(*ast.IncDecStmt)
	if !ok || post.Tok != token.INC {
		return "", tr.errf(x, "for loop: the post statement must be `i++`")
	}
	if id, ok := post.X.(*ast.Ident); !ok || id.Name != iv.Name {
		return "", tr.errf(x, "for loop: the post statement must increment the loop variable")
	}
	lo, err := tr.expr(init.Rhs[0])
	if err != nil {
		return "", err
	}
	if lo, err = tr.defaultType(init.Rhs[0], lo); err != nil {
		return "", err
	}
	it, ok := lo.t.(TInt)
	if !ok {
		return "", tr.errf(x, "for loop: loop variable of type %s", lo.t)
	}
	hi, err := tr.expr(cond.Y)
	if err != nil {
		return "", err
	}
	if hi, err = tr.conv(cond.Y, hi, lo.t); err != nil {
		return "", err
	}
	// the bound is evaluated once: sound only if nothing it mentions changes in the body
	bad := ""
	assigned := map[string]bool{}
	for _, v := range tr.assignedOuter(x.Body) {
		assigned[v.name] = true
	}
	if assignsName(x.Body, iv.Name) {
		bad = iv.Name
	}
	ast.Inspect(cond.Y, func(n ast.Node) bool {
		switch y := n.(type) {
		case *ast.Ident:
			if assigned[y.Name] {
				bad = y.Name
			}
		case *ast.CallExpr:
			if _, isLen := stripLen(y); !isLen && !tr.isTypeExpr(fn.file, fn.sc, y.Fun) {
				bad = "a function call in the loop bound"
			}
		}
		return true
	})
	if bad != "" {
		return "", tr.errf(x, "for loop: %s is modified in the loop body or the bound is not stable", bad)
	}
	hiTerm := hi.s
	if cond.Op == token.LEQ {
		// i <= hi with hi = MaxInt would not terminate in Go; require a constant bound below the maximum
		if hi.cv == nil {
			return "", tr.errf(x, "for loop: `<=` needs a constant bound")
		}
		hiTerm = "(" + hi.s + " + 1)"
		if _, _, err := tr.constFit(cond.Y, constant.BinaryOp(hi.cv, token.ADD, constant.MakeInt64(1)), it); err != nil {
			return "", tr.errf(x, "for loop: bound+1 overflows the loop variable's type")
		}
	}
	safe := append(append([]string{}, lo.safe...), hi.safe...)
	binder := fmt.Sprintf("(%s : Z)", coqIdent(iv.Name))
	return tr.loop(x, x.Body, c, rest, fmt.Sprintf("(go_range %s %s)", lo.s, hiTerm), safe, binder, func() error {
		_, err := tr.declare(iv, iv.Name, lo.t)
		return err
	})
}

func assignsName(body ast.Node, name string) bool {
	found := false
	ast.Inspect(body, func(n ast.Node) bool {
		check := func(e ast.Expr) {
			if id, ok := stripParens(e).(*ast.Ident); ok && id.Name == name {
				found = true
			}
		}
		switch x := n.(type) {
		case *ast.AssignStmt:
			for _, l := range x.Lhs {
				check(l)
			}
		case *ast.IncDecStmt:
			check(x.X)
		case *ast.UnaryExpr:
			if x.Op == token.AND {
				check(x.X)
			}
		}
		return true
	})
	return found
}

// for i, v := range xs { body }
func (tr *translator) rangeStmt(x *ast.RangeStmt, c ctx, rest kont) (string, error) {
	if x.Tok != token.DEFINE {
		return "", tr.errf(x, "range loop must declare its variables with :=")
	}
	xs, err := tr.expr(x.X)
	if err != nil {
		return "", err
	}
	var el Type
	switch t := xs.t.(type) {
	case TSlice:
		el = t.Elem
	case TArray:
		el = t.Elem
	default:
		return "", tr.errf(x, "range over type %s (maps, strings, channels and integers are not supported)", xs.t)
	}
	name := func(e ast.Expr) (string, error) {
		if e == nil {
			return "_", nil
		}
		id, ok := e.(*ast.Ident)
		if !ok {
			return "", tr.errf(e, "bad range variable")
		}
		return id.Name, nil
	}
	kn, err := name(x.Key)
	if err != nil {
		return "", err
	}
	vn, err := name(x.Value)
	if err != nil {
		return "", err
	}
	for _, n := range []string{kn, vn} {
		if n != "_" && assignsName(x.Body, n) {
			return "", tr.errf(x, "range variable %s is assigned in the loop body", n)
		}
	}
	// the range expression is evaluated once; a variable it mentions may change in the body without effect
	elT, err := coqType(el)
	if err != nil {
		return "", err
	}
	var list, binder string
	switch {
	case kn == "_" && vn == "_":
		list, binder = xs.s, fmt.Sprintf("(_ : %s)", elT)
	case kn == "_":
		list, binder = xs.s, fmt.Sprintf("(%s : %s)", coqIdent(vn), elT)
	default:
		kb, vb := coqIdent(kn), "_"
		if vn != "_" {
			vb = coqIdent(vn)
		}
		list, binder = fmt.Sprintf("(go_enum %s)", xs.s), fmt.Sprintf("'((%s, %s) : Z * %s)", kb, vb, elT)
	}
	return tr.loop(x, x.Body, c, rest, list, xs.safe, binder, func() error {
		if kn != "_" {
			if _, err := tr.declare(x.Key, kn, predeclared["int"]); err != nil {
				return err
			}
		}
		if vn != "_" {
			if _, err := tr.declare(x.Value, vn, el); err != nil {
				return err
			}
		}
		return nil
	})
}

// arrayVar: e is x or &x or x[:] ... for a local array variable x (or a pointer-to-array parameter)
func (tr *translator) arrayVarOf(e ast.Expr) *varInfo {
	id, ok := stripParens(e).(*ast.Ident)
	if !ok {
		return nil
	}
	vi := tr.cur.sc.lookup(id.Name)
	if vi == nil {
		return nil
	}
	if _, isArr := vi.typ.(TArray); !isArr {
		return nil
	}
	return vi
}

// refArg: the argument for a pointer-to-array parameter must be &x (x a local array) or p (p itself a
// pointer-to-array parameter)
func (tr *translator) refArg(e ast.Expr) (*varInfo, error) {
	e = stripParens(e)
	if u, ok := e.(*ast.UnaryExpr); ok && u.Op == token.AND {
		if vi := tr.arrayVarOf(u.X); vi != nil && !vi.byRef {
			return vi, nil
		}
	} else if vi := tr.arrayVarOf(e); vi != nil && vi.byRef {
		return vi, nil
	}
	return nil, tr.errf(e, "the argument for a pointer-to-array parameter must be &x with x a local array variable")
}

// sliceTarget: x[lo:] with x a local array variable, the destination of copy / PutUintN
func (tr *translator) sliceTarget(e ast.Expr) (*varInfo, ex, error) {
	se, ok := stripParens(e).(*ast.SliceExpr)
	if !ok || se.High != nil || se.Slice3 {
		return nil, ex{}, tr.errf(e, "the destination must be x[lo:] with x a local array variable")
	}
	vi := tr.arrayVarOf(se.X)
	if vi == nil {
		return nil, ex{}, tr.errf(e, "the destination must be a slice of a local ARRAY variable (writes through slices alias)")
	}
	lo := ex{s: "0", t: predeclared["int"]}
	if se.Low != nil {
		var err error
		if lo, err = tr.expr(se.Low); err != nil {
			return nil, ex{}, err
		}
		if lo, err = tr.defaultType(se.Low, lo); err != nil {
			return nil, ex{}, err
		}
		if _, isInt := lo.t.(TInt); !isInt {
			return nil, ex{}, tr.errf(se.Low, "slice index of type %s", lo.t)
		}
	}
	return vi, lo, nil
}

// exprStmt: the three statement-level calls with an effect on a local array:
//
//	copy(x[lo:], src)                         x := go_copy_at x lo src
//	binary.BigEndian.PutUint64(x[lo:], v)     x := be_put_uint64 x lo v
//	f(&x, args)  f a target writing through its pointer parameter, without Go results
func (tr *translator) exprStmt(x *ast.ExprStmt, c ctx, rest kont) (string, error) {
	fn := tr.cur
	call, ok := stripParens(x.X).(*ast.CallExpr)
	if !ok {
		return "", tr.errf(x, "unsupported expression statement")
	}
	if id, ok := call.Fun.(*ast.Ident); ok && id.Name == "copy" && fn.sc.lookup("copy") == nil {
		if _, isFunc := fn.file.pkg.funcs["copy"]; !isFunc {
			if len(call.Args) != 2 {
				return "", tr.errf(x, "copy: bad arity")
			}
			vi, lo, err := tr.sliceTarget(call.Args[0])
			if err != nil {
				return "", err
			}
			src, err := tr.expr(call.Args[1])
			if err != nil {
				return "", err
			}
			el := vi.typ.(TArray).Elem
			if st, ok := src.t.(TSlice); !ok || !sameType(st.Elem, el) {
				if _, isStr := src.t.(TString); !(isStr && isByte(el)) {
					return "", tr.errf(x, "copy from %s into [..]%s", src.t, el)
				}
			}
			safe := append(append([]string{}, lo.safe...), src.safe...)
			safe = append(safe, fmt.Sprintf("(go_slice_ok %s (go_len %s) (go_len %s))", lo.s, vi.coq, vi.coq))
			r, err := rest()
			if err != nil {
				return "", err
			}
			return tr.guard(c, x, safe, fmt.Sprintf("let %s := (go_copy_at %s %s %s) in\n%s", vi.coq, vi.coq, lo.s, src.s, r))
		}
	}
	if path, ok := tr.qualified(call.Fun); ok {
		if bits, ok := map[string]int{"encoding/binary.BigEndian.PutUint64": 64, "encoding/binary.BigEndian.PutUint32": 32,
			"encoding/binary.BigEndian.PutUint16": 16}[path]; ok {
			if len(call.Args) != 2 {
				return "", tr.errf(x, "PutUint%d: bad arity", bits)
			}
			vi, lo, err := tr.sliceTarget(call.Args[0])
			if err != nil {
				return "", err
			}
			if !isByte(vi.typ.(TArray).Elem) {
				return "", tr.errf(x, "PutUint%d into an array of %s", bits, vi.typ.(TArray).Elem)
			}
			v, err := tr.expr(call.Args[1])
			if err != nil {
				return "", err
			}
			if v, err = tr.conv(call.Args[1], v, predeclared[fmt.Sprintf("uint%d", bits)]); err != nil {
				return "", err
			}
			safe := append(append([]string{}, lo.safe...), v.safe...)
			safe = append(safe, fmt.Sprintf("(go_slice_ok %s (go_len %s) (go_len %s))", lo.s, vi.coq, vi.coq))
			safe = append(safe, fmt.Sprintf("(%d <=? (go_len %s) - %s)", bits/8, vi.coq, lo.s))
			r, err := rest()
			if err != nil {
				return "", err
			}
			return tr.guard(c, x, safe, fmt.Sprintf("let %s := (be_put_uint %d %s %s %s) in\n%s", vi.coq, bits/8, vi.coq, lo.s, v.s, r))
		}
	}
	// target with in/out array parameters
	key, recv, err := tr.calleeKey(call)
	if err != nil {
		return "", err
	}
	tg, ok := tr.targets[key]
	if !ok {
		return "", tr.errf(x, "call statement of %s, which is not a target in targets.json", key)
	}
	if err := tr.translateTarget(tg); err != nil {
		return "", err
	}
	if recv != nil || len(tg.refOut) == 0 || len(tg.results) != 0 || call.Ellipsis.IsValid() {
		return "", tr.errf(x, "call statement: only a function without results that writes through pointer-to-array parameters is supported")
	}
	if len(call.Args) != len(tg.paramTypes) {
		return "", tr.errf(x, "call of %s with %d arguments, want %d", key, len(call.Args), len(tg.paramTypes))
	}
	term := tg.spec.Gallina
	var safe []string
	outs := map[int]*varInfo{}
	seen := map[string]bool{}
	for i, a := range call.Args {
		if tg.paramRef[i] {
			vi, err := tr.refArg(a)
			if err != nil {
				return "", err
			}
			if !sameType(vi.typ, tg.paramTypes[i]) {
				return "", tr.errf(a, "argument of type *%s for a parameter of type *%s", vi.typ, tg.paramTypes[i])
			}
			if seen[vi.name] {
				return "", tr.errf(a, "the same array is passed twice by reference (aliasing)")
			}
			seen[vi.name] = true
			outs[i] = vi
			term += " " + vi.coq
			continue
		}
		v, err := tr.expr(a)
		if err != nil {
			return "", err
		}
		if v, err = tr.conv(a, v, tg.paramTypes[i]); err != nil {
			return "", err
		}
		term += " " + v.s
		safe = append(safe, v.safe...)
	}
	var pats []string
	for _, i := range tg.refOut {
		pats = append(pats, outs[i].coq)
	}
	r, err := rest()
	if err != nil {
		return "", err
	}
	pat := pats[0]
	if len(pats) > 1 {
		pat = "(" + strings.Join(pats, ", ") + ")"
	}
	var code string
	if tg.partial {
		p, err := tr.panicTerm(c, x)
		if err != nil {
			return "", err
		}
		code = fmt.Sprintf("match (%s) with\n| None => %s\n| Some %s =>\n%s\nend", term, p, pat, indent(r))
	} else if len(pats) > 1 {
		code = fmt.Sprintf("let '%s := (%s) in\n%s", pat, term, r)
	} else {
		code = fmt.Sprintf("let %s := (%s) in\n%s", pat, term, r)
	}
	return tr.guard(c, x, safe, code)
}

// mutatesRef: does the body write through the pointer-to-array parameter name?  Syntactic and conservative:
// an assignment to an element, or passing the array by reference (slice of it, the pointer itself) to anything
// but the read-only library functions.
func (tr *translator) mutatesRef(body ast.Node, name string) bool {
	base := func(e ast.Expr) (string, bool) { // (identifier, passed by reference)
		ref := false
		for {
			switch x := e.(type) {
			case *ast.ParenExpr:
				e = x.X
			case *ast.SliceExpr:
				ref = true
				e = x.X
			case *ast.StarExpr:
				e = x.X
			case *ast.UnaryExpr:
				if x.Op != token.AND {
					return "", false
				}
				ref = true
				e = x.X
			case *ast.Ident:
				return x.Name, ref
			default:
				return "", false
			}
		}
	}
	found := false
	ast.Inspect(body, func(n ast.Node) bool {
		switch x := n.(type) {
		case *ast.AssignStmt:
			for _, l := range x.Lhs {
				e := l
				for {
					if ix, ok := stripParens(e).(*ast.IndexExpr); ok {
						e = ix.X
						continue
					}
					break
				}
				if id, _ := base(e); id == name {
					found = true
				}
			}
		case *ast.IncDecStmt:
			e := x.X
			if ix, ok := stripParens(e).(*ast.IndexExpr); ok {
				e = ix.X
			}
			if id, _ := base(e); id == name {
				found = true
			}
		case *ast.CallExpr:
			readOnly := false
			if id, ok := x.Fun.(*ast.Ident); ok && (id.Name == "len" || id.Name == "cap") {
				readOnly = true
			}
			if sel, ok := x.Fun.(*ast.SelectorExpr); ok {
				if inner, ok := sel.X.(*ast.SelectorExpr); ok {
					if p, ok := inner.X.(*ast.Ident); ok && tr.cur.file.imports[p.Name] == "encoding/binary" &&
						inner.Sel.Name == "BigEndian" && (sel.Sel.Name == "Uint16" || sel.Sel.Name == "Uint32" || sel.Sel.Name == "Uint64") {
						readOnly = true
					}
				}
				if p, ok := sel.X.(*ast.Ident); ok && tr.cur.file.imports[p.Name] == "bytes" && sel.Sel.Name == "HasPrefix" {
					readOnly = true
				}
			}
			isCopy := false
			if id, ok := x.Fun.(*ast.Ident); ok && id.Name == "copy" {
				isCopy = true
			}
			for i, a := range x.Args {
				id, ref := base(a)
				if id != name {
					continue
				}
				if _, bare := stripParens(a).(*ast.Ident); bare {
					ref = true // the pointer itself is passed on
				}
				if ref && !readOnly && !(isCopy && i == 1) {
					found = true
				}
			}
		}
		return true
	})
	return found
}
