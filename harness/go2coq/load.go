package main

// Loading of Go source files (syntax only), resolution of import paths inside the module, and lookup of
// package-level declarations.  No type checker: everything the translator needs is resolved from syntax.

import (
	"fmt"
	"go/ast"
	"go/build/constraint"
	"go/parser"
	"go/token"
	"os"
	"path/filepath"
	"sort"
	"strings"
)

type pkg struct {
	path   string // import path
	dir    string
	name   string
	files  []*srcFile
	consts map[string]*constDecl
	types  map[string]*typeDecl
	funcs  map[string]*funcDecl // "Name" or "Recv.Name"
	vars   map[string]*varDecl
}

type srcFile struct {
	pkg     *pkg
	path    string // relative to the repo root
	src     []byte
	ast     *ast.File
	imports map[string]string // local name -> import path
}

type constDecl struct {
	file *srcFile
	name string
	typ  ast.Expr // may be nil
	val  ast.Expr // nil: implicit repetition (unsupported)
	iota int
}

type typeDecl struct {
	file *srcFile
	name string
	expr ast.Expr
}

type funcDecl struct {
	file *srcFile
	key  string
	decl *ast.FuncDecl
}

type varDecl struct {
	file *srcFile
	name string
	typ  ast.Expr
	val  ast.Expr
}

type loader struct {
	repo   string
	module string
	fset   *token.FileSet
	pkgs   map[string]*pkg
}

func newLoader(repo string) (*loader, error) {
	gm, err := os.ReadFile(filepath.Join(repo, "go.mod"))
	if err != nil {
		return nil, err
	}
	module := ""
	for _, line := range strings.Split(string(gm), "\n") {
		f := strings.Fields(line)
		if len(f) == 2 && f[0] == "module" {
			module = f[1]
			break
		}
	}
	if module == "" {
		return nil, fmt.Errorf("no module line in %s/go.mod", repo)
	}
	return &loader{repo: repo, module: module, fset: token.NewFileSet(), pkgs: map[string]*pkg{}}, nil
}

func (l *loader) inModule(path string) bool {
	return path == l.module || strings.HasPrefix(path, l.module+"/")
}

func (l *loader) pathOfDir(rel string) string {
	rel = filepath.ToSlash(filepath.Clean(rel))
	if rel == "." {
		return l.module
	}
	return l.module + "/" + rel
}

func buildTagOK(tag string) bool {
	switch tag {
	case "linux", "amd64", "unix", "gc", "cgo":
		return true
	}
	return strings.HasPrefix(tag, "go1.")
}

// fileIncluded evaluates a //go:build line with the default tag set (linux/amd64, no custom tags).
func fileIncluded(f *ast.File) bool {
	for _, cg := range f.Comments {
		if cg.Pos() >= f.Package {
			break
		}
		for _, c := range cg.List {
			if constraint.IsGoBuild(c.Text) {
				e, err := constraint.Parse(c.Text)
				if err != nil {
					return false
				}
				return e.Eval(buildTagOK)
			}
		}
	}
	return true
}

func (l *loader) load(path string) (*pkg, error) {
	if p, ok := l.pkgs[path]; ok {
		return p, nil
	}
	if !l.inModule(path) {
		return nil, fmt.Errorf("package %s is outside module %s", path, l.module)
	}
	rel := strings.TrimPrefix(strings.TrimPrefix(path, l.module), "/")
	dir := filepath.Join(l.repo, rel)
	ents, err := os.ReadDir(dir)
	if err != nil {
		return nil, err
	}
	p := &pkg{path: path, dir: dir, consts: map[string]*constDecl{}, types: map[string]*typeDecl{},
		funcs: map[string]*funcDecl{}, vars: map[string]*varDecl{}}
	var names []string
	for _, e := range ents {
		n := e.Name()
		if e.IsDir() || !strings.HasSuffix(n, ".go") || strings.HasSuffix(n, "_test.go") {
			continue
		}
		names = append(names, n)
	}
	sort.Strings(names)
	for _, n := range names {
		full := filepath.Join(dir, n)
		src, err := os.ReadFile(full)
		if err != nil {
			return nil, err
		}
		af, err := parser.ParseFile(l.fset, full, src, parser.ParseComments|parser.SkipObjectResolution)
		if err != nil {
			return nil, fmt.Errorf("parse %s: %v", full, err)
		}
		if !fileIncluded(af) {
			continue
		}
		if p.name == "" {
			p.name = af.Name.Name
		} else if p.name != af.Name.Name {
			return nil, fmt.Errorf("%s: package name %s differs from %s", full, af.Name.Name, p.name)
		}
		sf := &srcFile{pkg: p, path: filepath.ToSlash(filepath.Join(rel, n)), src: src, ast: af, imports: map[string]string{}}
		for _, im := range af.Imports {
			ip := strings.Trim(im.Path.Value, "\"`")
			local := ""
			if im.Name != nil {
				local = im.Name.Name
			} else {
				local = defaultImportName(ip)
			}
			sf.imports[local] = ip
		}
		p.files = append(p.files, sf)
		if err := p.index(sf); err != nil {
			return nil, err
		}
	}
	if len(p.files) == 0 {
		return nil, fmt.Errorf("no Go files in %s", dir)
	}
	l.pkgs[path] = p
	return p, nil
}

func defaultImportName(ip string) string {
	parts := strings.Split(ip, "/")
	last := parts[len(parts)-1]
	if len(parts) > 1 && len(last) >= 2 && last[0] == 'v' && strings.Trim(last[1:], "0123456789") == "" {
		last = parts[len(parts)-2]
	}
	return last
}

func recvTypeName(e ast.Expr) (string, bool) {
	switch x := e.(type) {
	case *ast.Ident:
		return x.Name, false
	case *ast.StarExpr:
		if id, ok := x.X.(*ast.Ident); ok {
			return id.Name, true
		}
	}
	return "", false
}

func (p *pkg) index(sf *srcFile) error {
	for _, d := range sf.ast.Decls {
		switch d := d.(type) {
		case *ast.FuncDecl:
			key := d.Name.Name
			if d.Recv != nil && len(d.Recv.List) == 1 {
				rn, _ := recvTypeName(d.Recv.List[0].Type)
				if rn == "" {
					continue // generic receiver etc.: not addressable as a target
				}
				key = rn + "." + key
			}
			p.funcs[key] = &funcDecl{file: sf, key: key, decl: d}
		case *ast.GenDecl:
			switch d.Tok {
			case token.CONST:
				for i, s := range d.Specs {
					vs := s.(*ast.ValueSpec)
					for j, n := range vs.Names {
						cd := &constDecl{file: sf, name: n.Name, typ: vs.Type, iota: i}
						if j < len(vs.Values) {
							cd.val = vs.Values[j]
						}
						p.consts[n.Name] = cd
					}
				}
			case token.TYPE:
				for _, s := range d.Specs {
					ts := s.(*ast.TypeSpec)
					if ts.TypeParams != nil {
						continue
					}
					p.types[ts.Name.Name] = &typeDecl{file: sf, name: ts.Name.Name, expr: ts.Type}
				}
			case token.VAR:
				for _, s := range d.Specs {
					vs := s.(*ast.ValueSpec)
					for j, n := range vs.Names {
						vd := &varDecl{file: sf, name: n.Name, typ: vs.Type}
						if len(vs.Values) == len(vs.Names) {
							vd.val = vs.Values[j]
						}
						p.vars[n.Name] = vd
					}
				}
			}
		}
	}
	return nil
}
