package main

// Whitelisted library functions.  Each entry maps "importpath.Name" to a rule that produces a term built
// from a definition of coq/Gen/Prelude.v (the hand-written, trusted semantics of that function).

import (
	"fmt"
	"go/ast"
	"strings"
)

type libFunc func(tr *translator, at *ast.CallExpr, args []ex) (ex, error)

const avaMath = "github.com/ava-labs/avalanchego/utils/math"

// sentinel errors of library packages
var libSentinels = map[string]string{
	avaMath + ".ErrOverflow":  "E_safemath_ErrOverflow",
	avaMath + ".ErrUnderflow": "E_safemath_ErrUnderflow",
}

var library map[string]libFunc

func init() {
	library = map[string]libFunc{
		"encoding/binary.BigEndian.Uint16":       beUint(16),
		"encoding/binary.BigEndian.Uint32":       beUint(32),
		"encoding/binary.BigEndian.Uint64":       beUint(64),
		"encoding/binary.BigEndian.AppendUint16": beAppend16,
		"bytes.HasPrefix":                        bytesHasPrefix,
		avaMath + ".Add":                         safemath("safemath_add", "E_safemath_ErrOverflow"),
		avaMath + ".Sub":                         safemath("safemath_sub", "E_safemath_ErrUnderflow"),
		avaMath + ".Mul":                         safemath("safemath_mul", "E_safemath_ErrOverflow"),
		"math/bits.Mul64":                        bitsMul64,
		"math/bits.Div64":                        bitsDiv64,
		"math/bits.Add64":                        bitsAdd64,
		"fmt.Errorf":                             fmtErrorf,
	}
}

func allSafe(args []ex) []string {
	var s []string
	for _, a := range args {
		s = append(s, a.safe...)
	}
	return s
}

func isByteSlice(t Type) bool {
	st, ok := t.(TSlice)
	return ok && isByte(st.Elem)
}

func beUint(bits int) libFunc {
	return func(tr *translator, at *ast.CallExpr, args []ex) (ex, error) {
		if len(args) != 1 || !isByteSlice(args[0].t) {
			return ex{}, tr.errf(at, "binary.BigEndian.Uint%d: argument must be a []byte", bits)
		}
		safe := append(allSafe(args), fmt.Sprintf("(%d <=? go_len %s)", bits/8, args[0].s))
		return ex{s: fmt.Sprintf("(be_uint%d %s)", bits, args[0].s), t: predeclared[fmt.Sprintf("uint%d", bits)], safe: safe}, nil
	}
}

func beAppend16(tr *translator, at *ast.CallExpr, args []ex) (ex, error) {
	if len(args) != 2 || !isByteSlice(args[0].t) {
		return ex{}, tr.errf(at, "binary.BigEndian.AppendUint16: bad arguments")
	}
	v, err := tr.conv(at.Args[1], args[1], predeclared["uint16"])
	if err != nil {
		return ex{}, err
	}
	return ex{s: fmt.Sprintf("(be_append_uint16 %s %s)", args[0].s, v.s), t: args[0].t, safe: allSafe(args)}, nil
}

func bytesHasPrefix(tr *translator, at *ast.CallExpr, args []ex) (ex, error) {
	if len(args) != 2 || !isByteSlice(args[0].t) || !isByteSlice(args[1].t) {
		return ex{}, tr.errf(at, "bytes.HasPrefix: arguments must be []byte")
	}
	return ex{s: fmt.Sprintf("(bytes_has_prefix %s %s)", args[0].s, args[1].s), t: TBool{}, safe: allSafe(args)}, nil
}

func safemath(def, sentinel string) libFunc {
	return func(tr *translator, at *ast.CallExpr, args []ex) (ex, error) {
		if len(args) != 2 {
			return ex{}, tr.errf(at, "%s: bad arity", def)
		}
		a, b := args[0], args[1]
		var err error
		if _, u := a.t.(TUntypedInt); u {
			if a, err = tr.conv(at.Args[0], a, b.t); err != nil {
				return ex{}, err
			}
		}
		if b, err = tr.conv(at.Args[1], b, a.t); err != nil {
			return ex{}, err
		}
		it, ok := a.t.(TInt)
		if !ok || it.Signed {
			return ex{}, tr.errf(at, "%s: the type argument must be an unsigned integer type, got %s", def, a.t)
		}
		tr.errorsUsed[sentinel] = true
		return ex{s: fmt.Sprintf("(%s %s %d %s %s)", def, sentinel, it.Bits, a.s, b.s),
			t: TTuple{Elems: []Type{a.t, TError{}}}, safe: allSafe(args)}, nil
	}
}

func u64Args(tr *translator, at *ast.CallExpr, args []ex, n int, name string) ([]ex, error) {
	if len(args) != n {
		return nil, tr.errf(at, "%s: bad arity", name)
	}
	out := make([]ex, n)
	for i := range args {
		v, err := tr.conv(at.Args[i], args[i], predeclared["uint64"])
		if err != nil {
			return nil, err
		}
		out[i] = v
	}
	return out, nil
}

func bitsMul64(tr *translator, at *ast.CallExpr, args []ex) (ex, error) {
	a, err := u64Args(tr, at, args, 2, "bits.Mul64")
	if err != nil {
		return ex{}, err
	}
	u := predeclared["uint64"]
	return ex{s: fmt.Sprintf("(bits_mul64 %s %s)", a[0].s, a[1].s), t: TTuple{Elems: []Type{u, u}}, safe: allSafe(args)}, nil
}

func bitsDiv64(tr *translator, at *ast.CallExpr, args []ex) (ex, error) {
	a, err := u64Args(tr, at, args, 3, "bits.Div64")
	if err != nil {
		return ex{}, err
	}
	u := predeclared["uint64"]
	safe := append(allSafe(args), fmt.Sprintf("(bits_div64_ok %s %s %s)", a[0].s, a[1].s, a[2].s))
	return ex{s: fmt.Sprintf("(bits_div64 %s %s %s)", a[0].s, a[1].s, a[2].s), t: TTuple{Elems: []Type{u, u}}, safe: safe}, nil
}

// fmt.Errorf("%w...", ErrX, args...) is the sentinel ErrX as far as errors.Is can tell; the message is not
// modelled.  The remaining arguments are still translated so that a panic while evaluating them is kept.
func fmtErrorf(tr *translator, at *ast.CallExpr, args []ex) (ex, error) {
	if len(args) < 2 {
		return ex{}, tr.errf(at, "fmt.Errorf without a wrapped sentinel error is not supported")
	}
	format := args[0].s
	if !strings.HasPrefix(format, "%w") || strings.Count(format, "%w") != 1 {
		return ex{}, tr.errf(at, "fmt.Errorf: the format must start with %%w and contain exactly one %%w")
	}
	if _, ok := args[1].t.(TError); !ok || !strings.HasPrefix(args[1].s, "(Some E_") {
		return ex{}, tr.errf(at, "fmt.Errorf: the first operand must be a sentinel error")
	}
	return ex{s: args[1].s, t: TError{}, safe: allSafe(args[1:])}, nil
}

func bitsAdd64(tr *translator, at *ast.CallExpr, args []ex) (ex, error) {
	a, err := u64Args(tr, at, args, 3, "bits.Add64")
	if err != nil {
		return ex{}, err
	}
	u := predeclared["uint64"]
	return ex{s: fmt.Sprintf("(bits_add64 %s %s %s)", a[0].s, a[1].s, a[2].s), t: TTuple{Elems: []Type{u, u}}, safe: allSafe(args)}, nil
}
