package main

// Expressions.  Every Go expression of the subset becomes a Gallina term over Z / bool / list together
// with the list of boolean "safety" conditions under which its evaluation does not panic.

import (
	"fmt"
	"go/ast"
	"go/constant"
	"go/token"
	"strconv"
	"strings"
)

type ex struct {
	s    string         // Gallina term (atomic or parenthesised)
	t    Type           // Go type
	cv   constant.Value // non-nil for constant expressions
	safe []string       // conditions that must all hold, otherwise the evaluation panics
}

func zlit(v constant.Value) string {
	s := constant.ToInt(v).ExactString()
	if strings.HasPrefix(s, "-") {
		return "(" + s + ")"
	}
	return s
}

func wrapName(t TInt) string {
	if t.Signed {
		return fmt.Sprintf("wrap_i%d", t.Bits)
	}
	return fmt.Sprintf("wrap_u%d", t.Bits)
}

func conj(cs []string) string {
	if len(cs) == 0 {
		return "true"
	}
	if len(cs) == 1 {
		return cs[0]
	}
	return "(" + strings.Join(cs, " && ") + ")"
}

func (tr *translator) constEx(e ast.Expr, v constant.Value, t Type) (ex, error) {
	switch v.Kind() {
	case constant.Bool:
		s := "false"
		if constant.BoolVal(v) {
			s = "true"
		}
		if _, u := t.(TUntypedBool); u {
			t = TBool{}
		}
		return ex{s: s, t: t, cv: v}, nil
	case constant.Int:
		return ex{s: zlit(v), t: t, cv: v}, nil
	}
	return ex{}, tr.errf(e, "unsupported constant kind %v", v.Kind())
}

// conv converts an expression to a required type when Go would do so implicitly (untyped constants, nil)
// and checks that the translator's inferred type agrees otherwise.
func (tr *translator) conv(e ast.Node, x ex, want Type) (ex, error) {
	switch x.t.(type) {
	case TUntypedInt:
		if _, ok := want.(TInt); !ok {
			return ex{}, tr.errf(e, "untyped integer constant used as %s", want)
		}
		if _, _, err := tr.constFit(e, x.cv, want); err != nil {
			return ex{}, err
		}
		x.t = want
		return x, nil
	case TNil:
		switch want.(type) {
		case TError:
			x.t = want
			x.s = "None"
			return x, nil
		case TSlice:
			x.t = want
			x.s = "[]"
			return x, nil
		}
		return ex{}, tr.errf(e, "nil used as %s", want)
	}
	if !sameType(x.t, want) {
		return ex{}, tr.errf(e, "type mismatch: expression has type %s, context requires %s", x.t, want)
	}
	return x, nil
}

// defaultType: the type an untyped constant takes in a short variable declaration.
func (tr *translator) defaultType(e ast.Node, x ex) (ex, error) {
	switch x.t.(type) {
	case TUntypedInt:
		return tr.conv(e, x, predeclared["int"])
	case TNil:
		return ex{}, tr.errf(e, "use of untyped nil")
	}
	return x, nil
}

func (tr *translator) expr(e ast.Expr) (ex, error) {
	fn := tr.cur
	if v, t, err := tr.constEval(fn.file, fn.sc, e); err != nil {
		return ex{}, err
	} else if v != nil {
		return tr.constEx(e, v, t)
	}
	switch x := e.(type) {
	case *ast.ParenExpr:
		return tr.expr(x.X)
	case *ast.Ident:
		if x.Name == "_" {
			return ex{}, tr.errf(e, "blank identifier used as a value")
		}
		if vi := fn.sc.lookup(x.Name); vi != nil {
			if _, isIface := vi.typ.(TIface); isIface {
				return ex{}, tr.errf(e, "interface-typed variable %s may only be used as the receiver of a niladic method call", x.Name)
			}
			if vi.byRef {
				return ex{}, tr.errf(e, "pointer parameter %s may only be indexed, sliced, measured with len or passed on by reference", x.Name)
			}
			return ex{s: vi.coq, t: vi.typ}, nil
		}
		if x.Name == "nil" {
			return ex{s: "None", t: TNil{}}, nil
		}
		if vd, ok := fn.file.pkg.vars[x.Name]; ok {
			return tr.sentinel(e, vd)
		}
		return ex{}, tr.errf(e, "unsupported identifier %s", x.Name)
	case *ast.SelectorExpr:
		if path, ok := tr.qualified(x); ok {
			if s, ok := libSentinels[path]; ok {
				tr.errorsUsed[s] = true
				return ex{s: "(Some " + s + ")", t: TError{}}, nil
			}
			id := x.X.(*ast.Ident)
			ip := fn.file.imports[id.Name]
			if tr.ld.inModule(ip) {
				p, err := tr.ld.load(ip)
				if err != nil {
					return ex{}, err
				}
				if vd, ok := p.vars[x.Sel.Name]; ok {
					return tr.sentinel(e, vd)
				}
			}
			return ex{}, tr.errf(e, "unsupported package-level identifier %s", path)
		}
		return ex{}, tr.errf(e, "field selection is not supported")
	case *ast.BasicLit:
		if x.Kind == token.STRING {
			s, err := strconv.Unquote(x.Value)
			if err != nil {
				return ex{}, tr.errf(e, "bad string literal")
			}
			var bs []string
			for _, b := range []byte(s) {
				bs = append(bs, strconv.Itoa(int(b)))
			}
			return ex{s: "[" + strings.Join(bs, "; ") + "]", t: TString{}}, nil
		}
		return ex{}, tr.errf(e, "unsupported literal %s", x.Value)
	case *ast.UnaryExpr:
		return tr.unary(x)
	case *ast.BinaryExpr:
		return tr.binary(x)
	case *ast.CallExpr:
		r, partial, err := tr.call(x)
		if err != nil {
			return ex{}, err
		}
		if partial {
			return ex{}, tr.errf(e, "call of a function that can panic is only supported as the whole right-hand side of an assignment or as the operand of return")
		}
		return r, nil
	case *ast.IndexExpr:
		a, err := tr.baseExpr(x.X)
		if err != nil {
			return ex{}, err
		}
		i, err := tr.expr(x.Index)
		if err != nil {
			return ex{}, err
		}
		if i, err = tr.defaultType(x.Index, i); err != nil {
			return ex{}, err
		}
		if _, ok := i.t.(TInt); !ok {
			return ex{}, tr.errf(x.Index, "index of type %s", i.t)
		}
		var el Type
		switch at := a.t.(type) {
		case TSlice:
			el = at.Elem
		case TArray:
			el = at.Elem
		case TString:
			el = predeclared["byte"]
		default:
			return ex{}, tr.errf(e, "index expression on type %s (maps are not supported)", a.t)
		}
		z, err := zeroValue(el)
		if err != nil {
			return ex{}, tr.errf(e, "%v", err)
		}
		safe := append(append([]string{}, a.safe...), i.safe...)
		safe = append(safe, fmt.Sprintf("(go_in_range %s %s)", a.s, i.s))
		return ex{s: fmt.Sprintf("(go_index %s %s %s)", z, a.s, i.s), t: el, safe: safe}, nil
	case *ast.SliceExpr:
		if x.Slice3 {
			return ex{}, tr.errf(e, "3-index slice expression")
		}
		a, err := tr.baseExpr(x.X)
		if err != nil {
			return ex{}, err
		}
		var rt Type
		switch at := a.t.(type) {
		case TSlice:
			rt = at
			if x.High != nil {
				return ex{}, tr.errf(e, "slice expression s[lo:hi] on a slice: the bound is cap(s), which is not modelled")
			}
		case TString:
			rt = at
		case TArray:
			rt = TSlice{Elem: at.Elem}
		default:
			return ex{}, tr.errf(e, "slice expression on type %s", a.t)
		}
		safe := append([]string{}, a.safe...)
		lo := ex{s: "0", t: predeclared["int"]}
		if x.Low != nil {
			if lo, err = tr.expr(x.Low); err != nil {
				return ex{}, err
			}
			if lo, err = tr.defaultType(x.Low, lo); err != nil {
				return ex{}, err
			}
			safe = append(safe, lo.safe...)
		}
		bound := fmt.Sprintf("(go_len %s)", a.s)
		hi := ex{s: bound}
		if x.High != nil {
			if hi, err = tr.expr(x.High); err != nil {
				return ex{}, err
			}
			if hi, err = tr.defaultType(x.High, hi); err != nil {
				return ex{}, err
			}
			safe = append(safe, hi.safe...)
		}
		safe = append(safe, fmt.Sprintf("(go_slice_ok %s %s %s)", lo.s, hi.s, bound))
		return ex{s: fmt.Sprintf("(go_slice %s %s %s)", a.s, lo.s, hi.s), t: rt, safe: safe}, nil
	case *ast.CompositeLit:
		if x.Type == nil {
			return ex{}, tr.errf(e, "composite literal without type")
		}
		t, err := tr.resolveType(fn.file, x.Type)
		if err != nil {
			return ex{}, err
		}
		switch ct := t.(type) {
		case TArray:
			if len(x.Elts) != 0 {
				return ex{}, tr.errf(e, "array literal with elements")
			}
			z, err := zeroValue(ct)
			if err != nil {
				return ex{}, tr.errf(e, "%v", err)
			}
			return ex{s: z, t: ct}, nil
		case TSlice:
			var parts, safe []string
			for _, el := range x.Elts {
				if _, kv := el.(*ast.KeyValueExpr); kv {
					return ex{}, tr.errf(el, "keyed element in slice literal")
				}
				v, err := tr.expr(el)
				if err != nil {
					return ex{}, err
				}
				if v, err = tr.conv(el, v, ct.Elem); err != nil {
					return ex{}, err
				}
				parts = append(parts, v.s)
				safe = append(safe, v.safe...)
			}
			return ex{s: "[" + strings.Join(parts, "; ") + "]", t: ct, safe: safe}, nil
		}
		return ex{}, tr.errf(e, "composite literal of type %s", t)
	}
	return ex{}, tr.errf(e, "unsupported expression %T", e)
}

// baseExpr: the operand of an index / slice / len expression; a pointer-to-array parameter is dereferenced
// automatically there (Go: p[i] is (*p)[i]).
func (tr *translator) baseExpr(e ast.Expr) (ex, error) {
	if id, ok := stripParens(e).(*ast.Ident); ok {
		if vi := tr.cur.sc.lookup(id.Name); vi != nil && vi.byRef {
			return ex{s: vi.coq, t: vi.typ}, nil
		}
	}
	return tr.expr(e)
}

// qualified flattens pkg.A.B (pkg an import name that is not shadowed) to "importpath.A.B".
func (tr *translator) qualified(e ast.Expr) (string, bool) {
	var segs []string
	for {
		switch x := e.(type) {
		case *ast.SelectorExpr:
			segs = append([]string{x.Sel.Name}, segs...)
			e = x.X
			continue
		case *ast.Ident:
			if tr.cur.sc.lookup(x.Name) != nil {
				return "", false
			}
			ip, ok := tr.cur.file.imports[x.Name]
			if !ok || len(segs) == 0 {
				return "", false
			}
			return ip + "." + strings.Join(segs, "."), true
		}
		return "", false
	}
}

// sentinel: a package-level variable may be used as a value only if it is declared as errors.New("...")
func (tr *translator) sentinel(e ast.Expr, vd *varDecl) (ex, error) {
	call, ok := vd.val.(*ast.CallExpr)
	if ok {
		if sel, ok2 := call.Fun.(*ast.SelectorExpr); ok2 {
			if id, ok3 := sel.X.(*ast.Ident); ok3 && vd.file.imports[id.Name] == "errors" && sel.Sel.Name == "New" {
				name := "E_" + vd.file.pkg.name + "_" + vd.name
				tr.errorsUsed[name] = true
				return ex{s: "(Some " + name + ")", t: TError{}}, nil
			}
		}
	}
	return ex{}, tr.errf(e, "package-level variable %s is not a sentinel error declared with errors.New", vd.name)
}

func (tr *translator) unary(x *ast.UnaryExpr) (ex, error) {
	a, err := tr.expr(x.X)
	if err != nil {
		return ex{}, err
	}
	switch x.Op {
	case token.NOT:
		if _, ok := a.t.(TBool); !ok {
			return ex{}, tr.errf(x, "! on type %s", a.t)
		}
		return ex{s: "(negb " + a.s + ")", t: a.t, safe: a.safe}, nil
	case token.ADD:
		return a, nil
	case token.SUB:
		it, ok := a.t.(TInt)
		if !ok {
			return ex{}, tr.errf(x, "unary - on type %s", a.t)
		}
		return ex{s: fmt.Sprintf("(%s (- %s))", wrapName(it), a.s), t: a.t, safe: a.safe}, nil
	case token.XOR:
		it, ok := a.t.(TInt)
		if !ok || it.Signed {
			return ex{}, tr.errf(x, "unary ^ is supported on unsigned integers only (type %s)", a.t)
		}
		return ex{s: fmt.Sprintf("(%s (Z.lnot %s))", wrapName(it), a.s), t: a.t, safe: a.safe}, nil
	}
	return ex{}, tr.errf(x, "unsupported unary operator %s", x.Op)
}

func (tr *translator) binary(x *ast.BinaryExpr) (ex, error) {
	a, err := tr.expr(x.X)
	if err != nil {
		return ex{}, err
	}
	b, err := tr.expr(x.Y)
	if err != nil {
		return ex{}, err
	}
	return tr.binop(x, x.Op, a, b, x.Y)
}

func (tr *translator) binop(at ast.Node, op token.Token, a, b ex, yExpr ast.Expr) (ex, error) {
	switch op {
	case token.LAND, token.LOR:
		_, ok1 := a.t.(TBool)
		_, ok2 := b.t.(TBool)
		if !ok1 || !ok2 {
			return ex{}, tr.errf(at, "%s on types %s, %s", op, a.t, b.t)
		}
		safe := append([]string{}, a.safe...)
		if len(b.safe) > 0 {
			// the right operand is evaluated only if the left one does not decide the result
			if op == token.LAND {
				safe = append(safe, fmt.Sprintf("(implb %s %s)", a.s, conj(b.safe)))
			} else {
				safe = append(safe, fmt.Sprintf("(implb (negb %s) %s)", a.s, conj(b.safe)))
			}
		}
		o := "&&"
		if op == token.LOR {
			o = "||"
		}
		return ex{s: fmt.Sprintf("(%s %s %s)", a.s, o, b.s), t: a.t, safe: safe}, nil
	case token.SHL, token.SHR:
		lt, ok := a.t.(TInt)
		if !ok {
			return ex{}, tr.errf(at, "shift of a value of type %s (untyped constant shifted by a variable is not supported)", a.t)
		}
		if lt.Signed {
			return ex{}, tr.errf(at, "shift of a signed integer is not supported")
		}
		if b.cv != nil {
			if constant.Sign(b.cv) < 0 {
				return ex{}, tr.errf(at, "negative shift count")
			}
		} else if bt, ok := b.t.(TInt); !ok || bt.Signed {
			return ex{}, tr.errf(at, "shift count must be unsigned or constant (a negative signed count panics)")
		}
		safe := append(append([]string{}, a.safe...), b.safe...)
		if op == token.SHL {
			return ex{s: fmt.Sprintf("(%s (Z.shiftl %s %s))", wrapName(lt), a.s, b.s), t: a.t, safe: safe}, nil
		}
		return ex{s: fmt.Sprintf("(Z.shiftr %s %s)", a.s, b.s), t: a.t, safe: safe}, nil
	}
	// operands must have identical types after conversion of untyped constants
	var err error
	_, aU := a.t.(TUntypedInt)
	_, bU := b.t.(TUntypedInt)
	_, aN := a.t.(TNil)
	_, bN := b.t.(TNil)
	switch {
	case aU && !bU || aN && !bN:
		if a, err = tr.conv(at, a, b.t); err != nil {
			return ex{}, err
		}
	case bU && !aU || bN && !aN:
		if b, err = tr.conv(at, b, a.t); err != nil {
			return ex{}, err
		}
	}
	if !sameType(a.t, b.t) {
		return ex{}, tr.errf(at, "operands of %s have types %s and %s", op, a.t, b.t)
	}
	safe := append(append([]string{}, a.safe...), b.safe...)
	switch op {
	case token.EQL, token.NEQ, token.LSS, token.LEQ, token.GTR, token.GEQ:
		var s string
		switch a.t.(type) {
		case TInt:
			o := map[token.Token]string{token.EQL: "=?", token.NEQ: "=?", token.LSS: "<?", token.LEQ: "<=?", token.GTR: ">?", token.GEQ: ">=?"}[op]
			s = fmt.Sprintf("(%s %s %s)", a.s, o, b.s)
		case TBool:
			if op != token.EQL && op != token.NEQ {
				return ex{}, tr.errf(at, "ordering of booleans")
			}
			s = fmt.Sprintf("(Bool.eqb %s %s)", a.s, b.s)
		case TError:
			if op != token.EQL && op != token.NEQ {
				return ex{}, tr.errf(at, "ordering of errors")
			}
			switch {
			case bN:
				s = fmt.Sprintf("(is_nil %s)", a.s)
			case aN:
				s = fmt.Sprintf("(is_nil %s)", b.s)
			default:
				return ex{}, tr.errf(at, "comparison of two error values (only comparison with nil is supported)")
			}
		default:
			return ex{}, tr.errf(at, "comparison of values of type %s", a.t)
		}
		if op == token.NEQ {
			s = "(negb " + s + ")"
		}
		return ex{s: s, t: TBool{}, safe: safe}, nil
	}
	it, ok := a.t.(TInt)
	if !ok {
		return ex{}, tr.errf(at, "operator %s on type %s", op, a.t)
	}
	w := wrapName(it)
	switch op {
	case token.ADD:
		return ex{s: fmt.Sprintf("(%s (%s + %s))", w, a.s, b.s), t: a.t, safe: safe}, nil
	case token.SUB:
		return ex{s: fmt.Sprintf("(%s (%s - %s))", w, a.s, b.s), t: a.t, safe: safe}, nil
	case token.MUL:
		return ex{s: fmt.Sprintf("(%s (%s * %s))", w, a.s, b.s), t: a.t, safe: safe}, nil
	case token.QUO, token.REM:
		if b.cv == nil {
			safe = append(safe, fmt.Sprintf("(negb (%s =? 0))", b.s))
		} else if constant.Sign(b.cv) == 0 {
			return ex{}, tr.errf(at, "division by constant zero")
		}
		if op == token.REM {
			return ex{s: fmt.Sprintf("(Z.rem %s %s)", a.s, b.s), t: a.t, safe: safe}, nil
		}
		if it.Signed {
			// MinInt / -1 wraps (Go spec, "Integer overflow")
			return ex{s: fmt.Sprintf("(%s (Z.quot %s %s))", w, a.s, b.s), t: a.t, safe: safe}, nil
		}
		return ex{s: fmt.Sprintf("(Z.quot %s %s)", a.s, b.s), t: a.t, safe: safe}, nil
	}
	if it.Signed {
		return ex{}, tr.errf(at, "bitwise operator %s on a signed integer is not supported", op)
	}
	switch op {
	case token.AND:
		return ex{s: fmt.Sprintf("(Z.land %s %s)", a.s, b.s), t: a.t, safe: safe}, nil
	case token.OR:
		return ex{s: fmt.Sprintf("(Z.lor %s %s)", a.s, b.s), t: a.t, safe: safe}, nil
	case token.XOR:
		return ex{s: fmt.Sprintf("(Z.lxor %s %s)", a.s, b.s), t: a.t, safe: safe}, nil
	case token.AND_NOT:
		return ex{s: fmt.Sprintf("(Z.ldiff %s %s)", a.s, b.s), t: a.t, safe: safe}, nil
	}
	return ex{}, tr.errf(at, "unsupported binary operator %s", op)
}

// ------------------------------------------------------------------------------------------------ calls

// call translates a call expression.  partial = the callee is a target function that can panic: the term
// then has type option T and must be bound by the caller.
func (tr *translator) call(x *ast.CallExpr) (ex, bool, error) {
	fn := tr.cur
	// conversion
	if tr.isTypeExpr(fn.file, fn.sc, x.Fun) {
		if len(x.Args) != 1 || x.Ellipsis.IsValid() {
			return ex{}, false, tr.errf(x, "bad conversion")
		}
		t, err := tr.resolveType(fn.file, x.Fun)
		if err != nil {
			return ex{}, false, err
		}
		a, err := tr.expr(x.Args[0])
		if err != nil {
			return ex{}, false, err
		}
		r, err := tr.conversion(x, t, a)
		return r, false, err
	}
	// builtins
	if id, ok := x.Fun.(*ast.Ident); ok && fn.sc.lookup(id.Name) == nil {
		if _, isFunc := fn.file.pkg.funcs[id.Name]; !isFunc {
			switch id.Name {
			case "len", "append", "make", "cap", "copy", "min", "max", "new", "panic", "delete", "clear":
				r, err := tr.builtin(x, id.Name)
				return r, false, err
			}
		}
	}
	// library function or sentinel-producing call
	if path, ok := tr.qualified(x.Fun); ok {
		if lf, ok := library[path]; ok {
			if x.Ellipsis.IsValid() {
				return ex{}, false, tr.errf(x, "variadic call with ...")
			}
			var args []ex
			for _, a := range x.Args {
				if path == "fmt.Errorf" && len(args) == 0 {
					// the format string
					lit, ok := a.(*ast.BasicLit)
					if !ok || lit.Kind != token.STRING {
						return ex{}, false, tr.errf(a, "fmt.Errorf: the format must be a string literal")
					}
					s, _ := strconv.Unquote(lit.Value)
					args = append(args, ex{s: s, t: TString{}})
					continue
				}
				v, err := tr.expr(a)
				if err != nil {
					return ex{}, false, err
				}
				args = append(args, v)
			}
			r, err := lf(tr, x, args)
			return r, false, err
		}
	}
	// interface getter: m.Method() with m an interface-typed parameter
	if sel, ok := x.Fun.(*ast.SelectorExpr); ok {
		if id, ok := sel.X.(*ast.Ident); ok {
			if vi := fn.sc.lookup(id.Name); vi != nil {
				if it, ok := vi.typ.(TIface); ok {
					if len(x.Args) != 0 {
						return ex{}, false, tr.errf(x, "interface method call with arguments")
					}
					for _, m := range it.Methods {
						if m.Name == sel.Sel.Name && m.Res != nil {
							return ex{s: vi.coq + "_" + m.Name, t: m.Res}, false, nil
						}
					}
					return ex{}, false, tr.errf(x, "interface method %s is not a niladic single-result method", sel.Sel.Name)
				}
			}
		}
	}
	// target function
	key, recv, err := tr.calleeKey(x)
	if err != nil {
		return ex{}, false, err
	}
	tg, ok := tr.targets[key]
	if !ok {
		return ex{}, false, tr.errf(x, "call of %s, which is neither a target in targets.json nor a library function of the prelude", key)
	}
	if err := tr.translateTarget(tg); err != nil {
		return ex{}, false, err
	}
	if x.Ellipsis.IsValid() {
		return ex{}, false, tr.errf(x, "variadic call with ...")
	}
	if len(tg.refOut) > 0 {
		return ex{}, false, tr.errf(x, "call of %s, which writes through a pointer parameter, is only supported as a statement", key)
	}
	var argExprs []ast.Expr
	var args []ex
	if recv != nil {
		r, err := tr.expr(recv)
		if err != nil {
			return ex{}, false, err
		}
		args = append(args, r)
		argExprs = append(argExprs, recv)
	}
	for _, a := range x.Args {
		if i := len(args); i < len(tg.paramRef) && tg.paramRef[i] {
			// read-only pointer-to-array parameter: pass the array value
			vi, err := tr.refArg(a)
			if err != nil {
				return ex{}, false, err
			}
			args = append(args, ex{s: vi.coq, t: vi.typ})
			argExprs = append(argExprs, a)
			continue
		}
		v, err := tr.expr(a)
		if err != nil {
			return ex{}, false, err
		}
		args = append(args, v)
		argExprs = append(argExprs, a)
	}
	if len(args) != len(tg.paramTypes) {
		return ex{}, false, tr.errf(x, "call of %s with %d arguments, want %d", key, len(args), len(tg.paramTypes))
	}
	s := tg.spec.Gallina
	var safe []string
	for i := range args {
		if _, isIface := tg.paramTypes[i].(TIface); isIface {
			return ex{}, false, tr.errf(x, "call of a target with an interface-typed parameter")
		}
		v, err := tr.conv(argExprs[i], args[i], tg.paramTypes[i])
		if err != nil {
			return ex{}, false, err
		}
		s += " " + v.s
		safe = append(safe, v.safe...)
	}
	return ex{s: "(" + s + ")", t: tg.resType, safe: safe}, tg.partial, nil
}

// calleeKey resolves f(...), pkg.f(...) and recv.Method(...) to a target key; recv is the receiver expression.
func (tr *translator) calleeKey(x *ast.CallExpr) (string, ast.Expr, error) {
	fn := tr.cur
	switch f := x.Fun.(type) {
	case *ast.Ident:
		if fn.sc.lookup(f.Name) != nil {
			return "", nil, tr.errf(x, "call of a function value")
		}
		return fn.file.pkg.path + "." + f.Name, nil, nil
	case *ast.SelectorExpr:
		if id, ok := f.X.(*ast.Ident); ok && fn.sc.lookup(id.Name) == nil {
			if ip, ok := fn.file.imports[id.Name]; ok {
				return ip + "." + f.Sel.Name, nil, nil
			}
		}
		r, err := tr.expr(f.X)
		if err != nil {
			return "", nil, err
		}
		named := ""
		switch t := r.t.(type) {
		case TInt:
			named = t.Named
		case TBool:
			named = t.Named
		case TArray:
			named = t.Named
		}
		if named == "" {
			return "", nil, tr.errf(x, "method call on a value of type %s", r.t)
		}
		return named + "." + f.Sel.Name, f.X, nil
	}
	return "", nil, tr.errf(x, "unsupported callee %T", x.Fun)
}

func (tr *translator) conversion(at ast.Node, t Type, a ex) (ex, error) {
	switch tt := t.(type) {
	case TInt:
		if _, ok := a.t.(TInt); ok {
			return ex{s: fmt.Sprintf("(%s %s)", wrapName(tt), a.s), t: t, safe: a.safe}, nil
		}
	case TString:
		if st, ok := a.t.(TSlice); ok && isByte(st.Elem) {
			return ex{s: a.s, t: t, safe: a.safe}, nil
		}
		if _, ok := a.t.(TString); ok {
			return ex{s: a.s, t: t, safe: a.safe}, nil
		}
	case TSlice:
		if _, ok := a.t.(TString); ok && isByte(tt.Elem) {
			return ex{s: a.s, t: t, safe: a.safe}, nil
		}
		if sameType(a.t, t) {
			return ex{s: a.s, t: t, safe: a.safe}, nil
		}
		if _, ok := a.t.(TNil); ok {
			return ex{s: "[]", t: t}, nil
		}
	case TBool:
		if _, ok := a.t.(TBool); ok {
			return ex{s: a.s, t: t, safe: a.safe}, nil
		}
	}
	return ex{}, tr.errf(at, "unsupported conversion from %s to %s", a.t, t)
}

func (tr *translator) builtin(x *ast.CallExpr, name string) (ex, error) {
	switch name {
	case "len":
		if len(x.Args) != 1 {
			return ex{}, tr.errf(x, "len: bad arity")
		}
		a, err := tr.baseExpr(x.Args[0])
		if err != nil {
			return ex{}, err
		}
		switch at := a.t.(type) {
		case TSlice, TString:
			return ex{s: fmt.Sprintf("(go_len %s)", a.s), t: predeclared["int"], safe: a.safe}, nil
		case TArray:
			if len(a.safe) == 0 {
				return ex{s: strconv.FormatInt(at.N, 10), t: predeclared["int"]}, nil
			}
		}
		return ex{}, tr.errf(x, "len of type %s", a.t)
	case "append":
		if len(x.Args) < 1 {
			return ex{}, tr.errf(x, "append: bad arity")
		}
		a, err := tr.expr(x.Args[0])
		if err != nil {
			return ex{}, err
		}
		st, ok := a.t.(TSlice)
		if !ok {
			return ex{}, tr.errf(x, "append to type %s", a.t)
		}
		safe := append([]string{}, a.safe...)
		if x.Ellipsis.IsValid() {
			if len(x.Args) != 2 {
				return ex{}, tr.errf(x, "append: bad arity")
			}
			b, err := tr.expr(x.Args[1])
			if err != nil {
				return ex{}, err
			}
			_, isStr := b.t.(TString)
			if !(sameType(b.t, a.t) || isStr && isByte(st.Elem)) {
				return ex{}, tr.errf(x, "append(%s, %s...)", a.t, b.t)
			}
			return ex{s: fmt.Sprintf("(%s ++ %s)", a.s, b.s), t: a.t, safe: append(safe, b.safe...)}, nil
		}
		var parts []string
		for _, el := range x.Args[1:] {
			v, err := tr.expr(el)
			if err != nil {
				return ex{}, err
			}
			if v, err = tr.conv(el, v, st.Elem); err != nil {
				return ex{}, err
			}
			parts = append(parts, v.s)
			safe = append(safe, v.safe...)
		}
		return ex{s: fmt.Sprintf("(%s ++ [%s])", a.s, strings.Join(parts, "; ")), t: a.t, safe: safe}, nil
	case "make":
		if len(x.Args) < 2 || len(x.Args) > 3 {
			return ex{}, tr.errf(x, "make: unsupported form")
		}
		t, err := tr.resolveType(tr.cur.file, x.Args[0])
		if err != nil {
			return ex{}, err
		}
		st, ok := t.(TSlice)
		if !ok {
			return ex{}, tr.errf(x, "make of type %s", t)
		}
		n, err := tr.expr(x.Args[1])
		if err != nil {
			return ex{}, err
		}
		if n.cv == nil || constant.Sign(n.cv) < 0 {
			return ex{}, tr.errf(x, "make with a non-constant length")
		}
		if len(x.Args) == 3 {
			c, err := tr.expr(x.Args[2])
			if err != nil {
				return ex{}, err
			}
			if len(c.safe) > 0 {
				return ex{}, tr.errf(x, "make: capacity expression that can panic")
			}
			if c.cv == nil {
				// make panics for a capacity < length or negative; with length 0 only negative matters
				if _, isLen := stripLen(x.Args[2]); !isLen {
					return ex{}, tr.errf(x, "make: capacity must be a constant or len(...)")
				}
			}
		}
		if constant.Sign(n.cv) == 0 {
			return ex{s: "[]", t: st}, nil
		}
		if _, ok := st.Elem.(TInt); ok {
			return ex{s: fmt.Sprintf("(go_zeros %s)", zlit(n.cv)), t: st}, nil
		}
		return ex{}, tr.errf(x, "make of a non-empty slice of %s", st.Elem)
	}
	return ex{}, tr.errf(x, "builtin %s is not supported", name)
}

func stripLen(e ast.Expr) (ast.Expr, bool) {
	c, ok := e.(*ast.CallExpr)
	if !ok || len(c.Args) != 1 {
		return nil, false
	}
	id, ok := c.Fun.(*ast.Ident)
	if !ok || id.Name != "len" {
		return nil, false
	}
	return c.Args[0], true
}
