package main

import (
	"encoding/json"
	"os"
	"path/filepath"
	"strings"
	"testing"
)

// writeRepo creates a one-package module with the given function bodies and returns (repo, targets.json).
func writeRepo(t *testing.T, src string, funcs ...string) (string, string) {
	t.Helper()
	dir := t.TempDir()
	must := func(err error) {
		if err != nil {
			t.Fatal(err)
		}
	}
	must(os.WriteFile(filepath.Join(dir, "go.mod"), []byte("module example.com/m\n\ngo 1.23\n"), 0o644))
	must(os.MkdirAll(filepath.Join(dir, "p"), 0o755))
	must(os.WriteFile(filepath.Join(dir, "p", "p.go"), []byte("package p\n\n"+src), 0o644))
	var specs []targetSpec
	for _, f := range funcs {
		specs = append(specs, targetSpec{File: "p/p.go", Func: f, Gallina: "p_" + strings.ReplaceAll(f, ".", "_")})
	}
	raw, _ := json.Marshal(specs)
	tj := filepath.Join(dir, "targets.json")
	must(os.WriteFile(tj, raw, 0o644))
	return dir, tj
}

func TestRejectsUnsupportedConstructs(t *testing.T) {
	cases := []struct{ name, src, want string }{
		{"map index", "func F(m map[string]int) int { return m[\"a\"] }", "unsupported type expression"},
		{"go statement", "func F(x int) int { go func() {}(); return x }", "unsupported statement"},
		{"shadowing", "func F(x int) int { if x > 0 { x := 1; return x }; return x }", "shadows"},
		{"slice hi on slice", "func F(b []byte) []byte { return b[0:1] }", "cap(s)"},
		{"break", "func F(b []byte) int { for i := 0; i < 3; i++ { break }; return 0 }", "unsupported branch statement"},
		{"pointer receiver", "type T int\nfunc (t *T) F() int { return 0 }", "not found"},
		{"non-target callee", "func g(x int) int { return x }\nfunc F(x int) int { return g(x) }", "neither a target"},
		{"slice element assignment", "func F(b []byte) int { b[0] = 1; return 0 }", "only arrays"},
		{"loop variable assigned", "func F() int { for i := 0; i < 3; i++ { i = 2 }; return 0 }", "modified in the loop body"},
		{"global variable", "var G = 3\nfunc F() int { return G }", "not a sentinel"},
		{"signed shift count", "func F(x uint64, n int) uint64 { return x << n }", "shift count"},
		{"iota", "const (\n A = iota\n B\n)\nfunc F() int { return B }", "iota"},
		{"missing return path", "func F(x int) int { for i := 0; i < 3; i++ { return 1 }\n panic(\"x\") }", "not a target"},
		{"named results", "func F(x int) (r int) { return x }", "named results"},
		{"struct field", "type S struct{ a int }\nfunc F(s S) int { return s.a }", "unsupported type expression"},
		{"copy into slice", "func F(b, c []byte) int { copy(b[0:], c); return 0 }", "local ARRAY"},
		{"pointer escapes", "type A [4]byte\nfunc F(p *A) int { q := p; _ = q; return 0 }", "pointer parameter"},
		{"pointer to non-array", "func F(p *int) int { return 0 }", "non-array"},
		{"mutating call in expression", "type A [4]byte\nfunc G(p *A) { p[0] = 1 }\nfunc F() int { var a A; G(&a); return int(a[0]) + H(&a) }\nfunc H(p *A) int { p[1] = 2; return 0 }", "only supported as a statement"},
	}
	for _, c := range cases {
		names := []string{"F"}
		if c.name == "mutating call in expression" {
			names = []string{"G", "H", "F"}
		}
		repo, tj := writeRepo(t, c.src, names...)
		_, _, err := run(repo, tj)
		if err == nil {
			t.Errorf("%s: translation succeeded, want an error mentioning %q", c.name, c.want)
			continue
		}
		if !strings.Contains(err.Error(), c.want) {
			t.Errorf("%s: error %q does not mention %q", c.name, err, c.want)
		}
	}
}

func TestSemanticsOfOperators(t *testing.T) {
	src := `
const K = 3
const M = ^uint16(0)
func USub(a, b uint64) uint64 { return a - b }
func SDiv(a, b int64) int64 { return a / b }
func SRem(a int64) int64 { return a % K }
func Conv(a int) uint16 { return uint16(a) }
func Idx(a [4]uint64, i int) uint64 { return a[i] }
func And(b []byte, i int) bool { return i < len(b) && b[i] == 1 }
func Max() int { return int(M) + 1 }
func Sum(xs []uint32) uint32 { s := uint32(0); for _, x := range xs { s += x }; return s }
type A [16]byte
func Put(p *A, i int, v uint64) { binary.BigEndian.PutUint64(p[i:], v) }
func Get(p *A) uint64 { return binary.BigEndian.Uint64(p[8:]) }
func Use(a A, v uint64) (uint64, A) { var r A; copy(r[:], a[8:]); Put(&r, 8, v); g := Get(&r); return g, r }
`
	src = "import \"encoding/binary\"\n" + src
	repo, tj := writeRepo(t, src, "USub", "SDiv", "SRem", "Conv", "Idx", "And", "Max", "Sum", "Put", "Get", "Use")
	out, n, err := run(repo, tj)
	if err != nil || n != 11 {
		t.Fatalf("run: %v (n=%d)", err, n)
	}
	for _, want := range []string{
		"Definition p_USub (a : Z) (b : Z) : Z :=\n  (wrap_u64 (a - b)).",
		"Definition p_SDiv (a : Z) (b : Z) : (option Z) :=\n  if (negb (b =? 0)) then\n    (Some (wrap_i64 (Z.quot a b)))\n  else None.",
		"Definition p_SRem (a : Z) : Z :=\n  (Z.rem a 3).",
		"Definition p_Conv (a : Z) : Z :=\n  (wrap_u16 a).",
		"if (go_in_range a i) then\n    (Some (go_index 0 a i))\n  else None.",
		"if (implb (i <? (go_len b)) (go_in_range b i)) then",
		"Definition p_Max : Z :=\n  65536.",
		"let s := (wrap_u32 (s + x)) in\n      (Next s)",
		"Definition p_Put (p : (list Z)) (i : Z) (v : Z) : (option (list Z)) :=",
		"let p := (be_put_uint 8 p i v) in\n    (Some p)",
		"Definition p_Get (p : (list Z)) : (option Z) :=",
		"let r := (go_copy_at r 0 (go_slice a 8 (go_len a))) in",
		"match (p_Put r 8 v) with\n    | None => None\n    | Some r =>",
		"match (p_Get r) with",
	} {
		if !strings.Contains(out, want) {
			t.Errorf("output lacks %q\n%s", want, out)
		}
	}
	// determinism
	out2, _, err := run(repo, tj)
	if err != nil || out2 != out {
		t.Errorf("translation is not deterministic")
	}
}
