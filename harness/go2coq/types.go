package main

// Types of the supported subset, resolution of type expressions and evaluation of constant expressions
// (go/constant), all from syntax.

import (
	"fmt"
	"go/ast"
	"go/constant"
	"go/token"
	"strings"
)

type Type interface{ String() string }

type (
	TBool struct{ Named string }
	TInt  struct {
		Bits   int
		Signed bool
		Named  string // "" for predeclared types, otherwise "importpath.Name"
	}
	TUntypedInt  struct{}
	TUntypedBool struct{}
	TNil         struct{}
	TString      struct{}
	TSlice       struct{ Elem Type }
	TArray       struct {
		N     int64
		Elem  Type
		Named string
	}
	TError struct{}
	TTuple struct{ Elems []Type }
	TIface struct {
		Named   string
		Methods []ifaceMethod
	}
)

type constRes struct {
	v constant.Value
	t Type
}

type ifaceMethod struct {
	Name string
	Res  Type
}

func (t TBool) String() string { return "bool" }
func (t TInt) String() string {
	s := fmt.Sprintf("int%d", t.Bits)
	if !t.Signed {
		s = "u" + s
	}
	if t.Named != "" {
		s += "(" + t.Named + ")"
	}
	return s
}
func (TUntypedInt) String() string  { return "untyped int" }
func (TUntypedBool) String() string { return "untyped bool" }
func (TNil) String() string         { return "nil" }
func (TString) String() string      { return "string" }
func (t TSlice) String() string     { return "[]" + t.Elem.String() }
func (t TArray) String() string     { return fmt.Sprintf("[%d]%s", t.N, t.Elem.String()) }
func (TError) String() string       { return "error" }
func (t TTuple) String() string {
	var s []string
	for _, e := range t.Elems {
		s = append(s, e.String())
	}
	return "(" + strings.Join(s, ", ") + ")"
}
func (t TIface) String() string { return "interface " + t.Named }

var predeclared = map[string]Type{
	"bool": TBool{}, "string": TString{}, "error": TError{},
	"int": TInt{Bits: 64, Signed: true}, "int8": TInt{Bits: 8, Signed: true}, "int16": TInt{Bits: 16, Signed: true},
	"int32": TInt{Bits: 32, Signed: true}, "int64": TInt{Bits: 64, Signed: true},
	"uint": TInt{Bits: 64}, "uint8": TInt{Bits: 8}, "byte": TInt{Bits: 8}, "uint16": TInt{Bits: 16},
	"uint32": TInt{Bits: 32}, "uint64": TInt{Bits: 64},
}

// sameType: structural identity ignoring type names (the Go compiler has already checked identity; this
// is a sanity check of the translator's own inference).
func sameType(a, b Type) bool {
	switch x := a.(type) {
	case TBool:
		_, ok := b.(TBool)
		return ok
	case TInt:
		y, ok := b.(TInt)
		return ok && x.Bits == y.Bits && x.Signed == y.Signed
	case TString:
		_, ok := b.(TString)
		return ok
	case TError:
		_, ok := b.(TError)
		return ok
	case TSlice:
		y, ok := b.(TSlice)
		return ok && sameType(x.Elem, y.Elem)
	case TArray:
		y, ok := b.(TArray)
		return ok && x.N == y.N && sameType(x.Elem, y.Elem)
	case TTuple:
		y, ok := b.(TTuple)
		if !ok || len(x.Elems) != len(y.Elems) {
			return false
		}
		for i := range x.Elems {
			if !sameType(x.Elems[i], y.Elems[i]) {
				return false
			}
		}
		return true
	}
	return false
}

func isByte(t Type) bool {
	i, ok := t.(TInt)
	return ok && i.Bits == 8 && !i.Signed
}

// coqType renders the Gallina type that represents a Go type.
func coqType(t Type) (string, error) {
	switch x := t.(type) {
	case TBool:
		return "bool", nil
	case TInt:
		return "Z", nil
	case TString:
		return "(list Z)", nil
	case TSlice:
		e, err := coqType(x.Elem)
		if err != nil {
			return "", err
		}
		return "(list " + e + ")", nil
	case TArray:
		e, err := coqType(x.Elem)
		if err != nil {
			return "", err
		}
		return "(list " + e + ")", nil
	case TError:
		return "(option go_error)", nil
	case TTuple:
		var s []string
		for _, e := range x.Elems {
			c, err := coqType(e)
			if err != nil {
				return "", err
			}
			s = append(s, c)
		}
		return "(" + strings.Join(s, " * ") + ")", nil
	}
	return "", fmt.Errorf("no Gallina representation for Go type %s", t)
}

// zeroValue renders the zero value of a type.
func zeroValue(t Type) (string, error) {
	switch x := t.(type) {
	case TBool:
		return "false", nil
	case TInt:
		return "0", nil
	case TString, TSlice:
		return "[]", nil
	case TError:
		return "None", nil
	case TArray:
		if _, ok := x.Elem.(TInt); ok {
			return fmt.Sprintf("(go_zeros %d)", x.N), nil
		}
	}
	return "", fmt.Errorf("zero value of type %s is not supported", t)
}

// resolveType turns a type expression occurring in file f into a Type.
func (tr *translator) resolveType(f *srcFile, e ast.Expr) (Type, error) {
	switch x := e.(type) {
	case *ast.ParenExpr:
		return tr.resolveType(f, x.X)
	case *ast.Ident:
		if td, ok := f.pkg.types[x.Name]; ok {
			return tr.resolveNamed(td)
		}
		if t, ok := predeclared[x.Name]; ok {
			return t, nil
		}
		return nil, tr.errf(e, "unknown type %s", x.Name)
	case *ast.SelectorExpr:
		id, ok := x.X.(*ast.Ident)
		if !ok {
			return nil, tr.errf(e, "unsupported type expression")
		}
		ip, ok := f.imports[id.Name]
		if !ok {
			return nil, tr.errf(e, "unknown package %s", id.Name)
		}
		if !tr.ld.inModule(ip) {
			return nil, tr.errf(e, "type %s.%s from a package outside the module is not supported", ip, x.Sel.Name)
		}
		p, err := tr.ld.load(ip)
		if err != nil {
			return nil, err
		}
		td, ok := p.types[x.Sel.Name]
		if !ok {
			return nil, tr.errf(e, "type %s not found in %s", x.Sel.Name, ip)
		}
		return tr.resolveNamed(td)
	case *ast.ArrayType:
		el, err := tr.resolveType(f, x.Elt)
		if err != nil {
			return nil, err
		}
		if x.Len == nil {
			return TSlice{Elem: el}, nil
		}
		cv, _, err := tr.constEval(f, nil, x.Len)
		if err != nil {
			return nil, err
		}
		if cv == nil {
			return nil, tr.errf(e, "array length is not a constant expression")
		}
		n, ok := constant.Int64Val(constant.ToInt(cv))
		if !ok || n < 0 {
			return nil, tr.errf(e, "bad array length")
		}
		return TArray{N: n, Elem: el}, nil
	}
	return nil, tr.errf(e, "unsupported type expression %T", e)
}

func (tr *translator) resolveNamed(td *typeDecl) (Type, error) {
	full := td.file.pkg.path + "." + td.name
	if it, ok := td.expr.(*ast.InterfaceType); ok {
		res := TIface{Named: full}
		for _, m := range it.Methods.List {
			ft, ok := m.Type.(*ast.FuncType)
			if !ok || len(m.Names) != 1 {
				return nil, tr.errf(td.expr, "interface %s: embedded interfaces are not supported", full)
			}
			im := ifaceMethod{Name: m.Names[0].Name}
			if (ft.Params == nil || len(ft.Params.List) == 0) && ft.Results != nil && len(ft.Results.List) == 1 && len(ft.Results.List[0].Names) <= 1 {
				rt, err := tr.resolveType(td.file, ft.Results.List[0].Type)
				if err != nil {
					return nil, err
				}
				im.Res = rt
			}
			res.Methods = append(res.Methods, im)
		}
		return res, nil
	}
	u, err := tr.resolveType(td.file, td.expr)
	if err != nil {
		return nil, err
	}
	switch x := u.(type) {
	case TInt:
		x.Named = full
		return x, nil
	case TBool:
		x.Named = full
		return x, nil
	case TArray:
		x.Named = full
		return x, nil
	}
	return u, nil
}

// ------------------------------------------------------------------------------------------------ constants

// constEval evaluates e as a Go constant expression.  Result (nil, nil, nil) means "not a constant
// expression" (it mentions a variable or a non-constant call).  sc (may be nil) is the scope of local variables:
// a local variable shadows a package-level constant of the same name.
func (tr *translator) constEval(f *srcFile, sc *scopes, e ast.Expr) (constant.Value, Type, error) {
	switch x := e.(type) {
	case *ast.ParenExpr:
		return tr.constEval(f, sc, x.X)
	case *ast.BasicLit:
		switch x.Kind {
		case token.INT, token.CHAR:
			v := constant.MakeFromLiteral(x.Value, x.Kind, 0)
			if v.Kind() == constant.Unknown {
				return nil, nil, tr.errf(e, "bad literal %s", x.Value)
			}
			return v, TUntypedInt{}, nil
		}
		return nil, nil, nil // strings, floats: not integer constants; callers decide
	case *ast.Ident:
		if sc != nil && sc.lookup(x.Name) != nil {
			return nil, nil, nil
		}
		if cd, ok := f.pkg.consts[x.Name]; ok {
			return tr.constDeclValue(cd)
		}
		if _, isVar := f.pkg.vars[x.Name]; isVar {
			return nil, nil, nil
		}
		switch x.Name {
		case "true":
			return constant.MakeBool(true), TUntypedBool{}, nil
		case "false":
			return constant.MakeBool(false), TUntypedBool{}, nil
		case "iota":
			return nil, nil, tr.errf(e, "iota is not supported")
		}
		return nil, nil, nil
	case *ast.SelectorExpr:
		id, ok := x.X.(*ast.Ident)
		if !ok {
			return nil, nil, nil
		}
		if sc != nil && sc.lookup(id.Name) != nil {
			return nil, nil, nil
		}
		ip, ok := f.imports[id.Name]
		if !ok || !tr.ld.inModule(ip) {
			return nil, nil, nil
		}
		p, err := tr.ld.load(ip)
		if err != nil {
			return nil, nil, err
		}
		cd, ok := p.consts[x.Sel.Name]
		if !ok {
			return nil, nil, nil
		}
		return tr.constDeclValue(cd)
	case *ast.UnaryExpr:
		v, t, err := tr.constEval(f, sc, x.X)
		if err != nil || v == nil {
			return nil, nil, err
		}
		switch x.Op {
		case token.ADD:
			return v, t, nil
		case token.SUB:
			return tr.constFit(e, constant.UnaryOp(token.SUB, v, 0), t)
		case token.XOR:
			prec := uint(0)
			if it, ok := t.(TInt); ok && !it.Signed {
				prec = uint(it.Bits)
			}
			return tr.constFit(e, constant.UnaryOp(token.XOR, v, prec), t)
		case token.NOT:
			if v.Kind() != constant.Bool {
				return nil, nil, tr.errf(e, "! on a non-boolean constant")
			}
			return constant.MakeBool(!constant.BoolVal(v)), t, nil
		}
		return nil, nil, tr.errf(e, "unsupported constant operator %s", x.Op)
	case *ast.BinaryExpr:
		a, ta, err := tr.constEval(f, sc, x.X)
		if err != nil || a == nil {
			return nil, nil, err
		}
		b, tb, err := tr.constEval(f, sc, x.Y)
		if err != nil || b == nil {
			return nil, nil, err
		}
		switch x.Op {
		case token.SHL, token.SHR:
			n, ok := constant.Uint64Val(constant.ToInt(b))
			if !ok || n > 4096 {
				return nil, nil, tr.errf(e, "bad constant shift count")
			}
			return tr.constFit(e, constant.Shift(a, x.Op, uint(n)), ta)
		case token.EQL, token.NEQ, token.LSS, token.LEQ, token.GTR, token.GEQ:
			return constant.MakeBool(constant.Compare(a, x.Op, b)), TUntypedBool{}, nil
		case token.LAND:
			return constant.MakeBool(constant.BoolVal(a) && constant.BoolVal(b)), ta, nil
		case token.LOR:
			return constant.MakeBool(constant.BoolVal(a) || constant.BoolVal(b)), ta, nil
		}
		rt := ta
		if _, u := ta.(TUntypedInt); u {
			rt = tb
		}
		op := x.Op
		if op == token.QUO {
			if constant.Sign(b) == 0 {
				return nil, nil, tr.errf(e, "constant division by zero")
			}
			op = token.QUO_ASSIGN // integer division in go/constant
		}
		if op == token.REM && constant.Sign(b) == 0 {
			return nil, nil, tr.errf(e, "constant division by zero")
		}
		switch op {
		case token.ADD, token.SUB, token.MUL, token.QUO_ASSIGN, token.REM, token.AND, token.OR, token.XOR, token.AND_NOT:
			return tr.constFit(e, constant.BinaryOp(a, op, b), rt)
		}
		return nil, nil, tr.errf(e, "unsupported constant operator %s", x.Op)
	case *ast.CallExpr:
		// conversion T(c) to an integer type
		if len(x.Args) != 1 || x.Ellipsis.IsValid() {
			return nil, nil, nil
		}
		if !tr.isTypeExpr(f, sc, x.Fun) {
			return nil, nil, nil
		}
		v, _, err := tr.constEval(f, sc, x.Args[0])
		if err != nil || v == nil {
			return nil, nil, err
		}
		t, err := tr.resolveType(f, x.Fun)
		if err != nil {
			return nil, nil, err
		}
		if _, ok := t.(TInt); !ok {
			return nil, nil, nil
		}
		return tr.constFit(e, v, t)
	}
	return nil, nil, nil
}

// constFit checks that an integer constant is representable in its (typed) type, as the compiler does.
func (tr *translator) constFit(e ast.Node, v constant.Value, t Type) (constant.Value, Type, error) {
	if v.Kind() == constant.Unknown {
		return nil, nil, tr.errf(e, "constant evaluation failed")
	}
	it, ok := t.(TInt)
	if !ok {
		return v, t, nil
	}
	v = constant.ToInt(v)
	if v.Kind() != constant.Int {
		return nil, nil, tr.errf(e, "non-integer constant for type %s", t)
	}
	var lo, hi constant.Value
	one := constant.MakeInt64(1)
	if it.Signed {
		hi = constant.BinaryOp(constant.Shift(one, token.SHL, uint(it.Bits-1)), token.SUB, one)
		lo = constant.UnaryOp(token.SUB, constant.Shift(one, token.SHL, uint(it.Bits-1)), 0)
	} else {
		hi = constant.BinaryOp(constant.Shift(one, token.SHL, uint(it.Bits)), token.SUB, one)
		lo = constant.MakeInt64(0)
	}
	if constant.Compare(v, token.LSS, lo) || constant.Compare(v, token.GTR, hi) {
		return nil, nil, tr.errf(e, "constant %s overflows %s", v.ExactString(), t)
	}
	return v, t, nil
}

func (tr *translator) constDeclValue(cd *constDecl) (constant.Value, Type, error) {
	key := cd.file.pkg.path + "." + cd.name
	if r, ok := tr.constCache[key]; ok {
		return r.v, r.t, nil
	}
	if tr.constBusy[key] {
		return nil, nil, fmt.Errorf("constant %s: cyclic definition", key)
	}
	if cd.val == nil {
		return nil, nil, fmt.Errorf("constant %s: implicit repetition / iota is not supported", key)
	}
	tr.constBusy[key] = true
	defer delete(tr.constBusy, key)
	v, t, err := tr.constEval(cd.file, nil, cd.val)
	if err != nil {
		return nil, nil, err
	}
	if v == nil {
		return nil, nil, fmt.Errorf("constant %s: unsupported constant expression", key)
	}
	if cd.typ != nil {
		dt, err := tr.resolveType(cd.file, cd.typ)
		if err != nil {
			return nil, nil, err
		}
		v, t, err = tr.constFit(cd.val, v, dt)
		if err != nil {
			return nil, nil, err
		}
	}
	tr.constCache[key] = constRes{v, t}
	return v, t, nil
}

// isTypeExpr: does the expression in call position denote a type (conversion) rather than a function?
func (tr *translator) isTypeExpr(f *srcFile, sc *scopes, e ast.Expr) bool {
	switch x := e.(type) {
	case *ast.ParenExpr:
		return tr.isTypeExpr(f, sc, x.X)
	case *ast.ArrayType:
		return true
	case *ast.Ident:
		if sc != nil && sc.lookup(x.Name) != nil {
			return false
		}
		if _, ok := f.pkg.types[x.Name]; ok {
			return true
		}
		if _, ok := f.pkg.funcs[x.Name]; ok {
			return false
		}
		_, ok := predeclared[x.Name]
		return ok
	case *ast.SelectorExpr:
		id, ok := x.X.(*ast.Ident)
		if !ok {
			return false
		}
		if sc != nil && sc.lookup(id.Name) != nil {
			return false
		}
		ip, ok := f.imports[id.Name]
		if !ok || !tr.ld.inModule(ip) {
			return false
		}
		p, err := tr.ld.load(ip)
		if err != nil {
			return false
		}
		_, ok = p.types[x.Sel.Name]
		return ok
	}
	return false
}
