// go2coq: a syntax-directed translator from a small, explicitly delimited subset of Go (leaf functions of
// hypersdk: integer arithmetic, comparisons, byte slices, fixed-size arrays, bounded loops) to Gallina.
//
//	go2coq -repo /repo -targets harness/go2coq/targets.json -o coq/Gen/Leaf.v
//
// The output is a deterministic function of the Go sources of the listed functions (and of the constant
// and type declarations they mention).  Anything outside the supported subset is an error that names the
// construct and its position: the translator never guesses.  See notes/GO2COQ.md.
package main

import (
	"encoding/json"
	"flag"
	"fmt"
	"go/ast"
	"os"
	"path/filepath"
	"sort"
	"strings"
)

type targetSpec struct {
	File    string `json:"file"`
	Func    string `json:"func"`
	Gallina string `json:"gallina_name"`
	Notes   string `json:"notes,omitempty"`
}

type target struct {
	spec       targetSpec
	fd         *funcDecl
	key        string
	done, busy bool
	partial    bool
	paramTypes []Type // receiver first; for a pointer-to-array parameter the array type
	paramRef   []bool // parameter i is a pointer to an array
	refOut     []int  // indices of the pointer parameters the body writes through (returned as extra results)
	results    []Type // Go results
	resType    Type   // type of the Gallina result: Go results followed by the final values of refOut
	text       string
}

type fnState struct {
	file     *srcFile
	sc       *scopes
	partial  bool
	panicked bool
	fresh    int
	results  []Type     // Go results
	resType  Type       // Gallina result type (Go results ++ types of refOut)
	refOut   []*varInfo // pointer-to-array parameters written by the body
}

type translator struct {
	ld         *loader
	targets    map[string]*target
	order      []*target // emission order (callees first)
	constCache map[string]constRes
	constBusy  map[string]bool
	errorsUsed map[string]bool
	cur        *fnState
}

func (tr *translator) errf(at ast.Node, format string, args ...interface{}) error {
	pos := "?"
	if at != nil && at.Pos().IsValid() {
		p := tr.ld.fset.Position(at.Pos())
		rel, err := filepath.Rel(tr.ld.repo, p.Filename)
		if err != nil {
			rel = p.Filename
		}
		pos = fmt.Sprintf("%s:%d:%d", rel, p.Line, p.Column)
	}
	return fmt.Errorf("%s: %s", pos, fmt.Sprintf(format, args...))
}

var reserved = map[string]bool{}

// gallina names of the targets of the current run (also reserved)
var targetNames = map[string]bool{}

func init() {
	for _, w := range strings.Fields(`as at cofix else end exists exists2 fix for forall fun if IF in let match mod Prop return Set then
		Type using where with by struct nosimpl
		Z N nat list option bool unit Some None Next Return true false tt nil cons negb implb andb orb fst snd pair
		length app rev map seq repeat firstn skipn nth combine xorb eqb
		is_nil ctl go_for go_len go_index go_in_range go_slice go_slice_ok go_set go_zeros go_range go_enum list_set
		wrap_u wrap_i wrap_u8 wrap_u16 wrap_u32 wrap_u64 wrap_i8 wrap_i16 wrap_i32 wrap_i64
		be_uint16 be_uint32 be_uint64 be_uint_from be_append_uint16 bytes_has_prefix
		safemath_add safemath_sub safemath_mul bits_mul64 bits_div64 bits_div64_ok bits_add64 go_copy_at be_put_uint be_bytes go_error`) {
		reserved[w] = true
	}
}

// coqIdent: Go identifiers are used as they are; a name that is reserved in Gallina, used by the prelude or by
// a generated definition gets a trailing underscore.  Generated helper names contain ' and cannot clash.
func coqIdent(name string) string {
	if reserved[name] || targetNames[name] || strings.HasPrefix(name, "E_") {
		return name + "_"
	}
	for _, r := range name {
		if r > 127 {
			return name + "_nonascii" // rejected below by the Coq compiler if it ever clashes; keep deterministic
		}
	}
	return name
}

func main() {
	repo := flag.String("repo", envOr("VERIF_REPO", "/repo"), "root of the Go repository")
	targetsPath := flag.String("targets", "", "targets.json (default: next to the go2coq sources)")
	out := flag.String("o", "", "output .v file (default: stdout)")
	flag.Parse()
	if *targetsPath == "" {
		exe, _ := os.Executable()
		*targetsPath = filepath.Join(filepath.Dir(filepath.Dir(exe)), "go2coq", "targets.json")
	}
	text, n, err := run(*repo, *targetsPath)
	if err != nil {
		fmt.Fprintf(os.Stderr, "go2coq: FAILED: %v\n", err)
		os.Exit(1)
	}
	if *out == "" {
		fmt.Print(text)
	} else {
		if err := os.MkdirAll(filepath.Dir(*out), 0o755); err != nil {
			fmt.Fprintf(os.Stderr, "go2coq: %v\n", err)
			os.Exit(1)
		}
		old, _ := os.ReadFile(*out)
		if string(old) != text {
			if err := os.WriteFile(*out, []byte(text), 0o644); err != nil {
				fmt.Fprintf(os.Stderr, "go2coq: %v\n", err)
				os.Exit(1)
			}
		}
	}
	fmt.Fprintf(os.Stderr, "go2coq: %d targets translated\n", n)
}

func envOr(k, d string) string {
	if v := os.Getenv(k); v != "" {
		return v
	}
	return d
}

func run(repo, targetsPath string) (string, int, error) {
	raw, err := os.ReadFile(targetsPath)
	if err != nil {
		return "", 0, err
	}
	var specs []targetSpec
	if err := json.Unmarshal(raw, &specs); err != nil {
		return "", 0, fmt.Errorf("%s: %v", targetsPath, err)
	}
	ld, err := newLoader(repo)
	if err != nil {
		return "", 0, err
	}
	tr := &translator{ld: ld, targets: map[string]*target{}, constCache: map[string]constRes{}, constBusy: map[string]bool{},
		errorsUsed: map[string]bool{}}
	var all []*target
	names := map[string]bool{}
	targetNames = map[string]bool{}
	for _, sp := range specs {
		if sp.File == "" || sp.Func == "" || sp.Gallina == "" {
			return "", 0, fmt.Errorf("%s: every target needs file, func and gallina_name", targetsPath)
		}
		if names[sp.Gallina] || reserved[sp.Gallina] {
			return "", 0, fmt.Errorf("gallina_name %s is duplicated or reserved", sp.Gallina)
		}
		names[sp.Gallina] = true
		targetNames[sp.Gallina] = true
		p, err := ld.load(ld.pathOfDir(filepath.Dir(sp.File)))
		if err != nil {
			return "", 0, err
		}
		fd, ok := p.funcs[sp.Func]
		if !ok {
			return "", 0, fmt.Errorf("%s: function %s not found in package %s", sp.File, sp.Func, p.path)
		}
		if fd.file.path != filepath.ToSlash(sp.File) {
			return "", 0, fmt.Errorf("function %s is declared in %s, not in %s", sp.Func, fd.file.path, sp.File)
		}
		tg := &target{spec: sp, fd: fd, key: p.path + "." + sp.Func}
		if _, dup := tr.targets[tg.key]; dup {
			return "", 0, fmt.Errorf("target %s listed twice", tg.key)
		}
		tr.targets[tg.key] = tg
		all = append(all, tg)
	}
	for _, tg := range all {
		if err := tr.translateTarget(tg); err != nil {
			return "", 0, fmt.Errorf("target %s (%s): %v", tg.spec.Func, tg.spec.File, err)
		}
	}
	return tr.render(), len(all), nil
}

func (tr *translator) translateTarget(tg *target) error {
	if tg.done {
		return nil
	}
	if tg.busy {
		return fmt.Errorf("recursion through %s is not supported", tg.key)
	}
	tg.busy = true
	saved := tr.cur
	defer func() { tr.cur = saved; tg.busy = false }()

	d := tg.fd.decl
	f := tg.fd.file
	if d.Body == nil {
		return tr.errf(d, "function without body")
	}
	if d.Type.TypeParams != nil {
		return tr.errf(d, "generic function")
	}
	// first pass in "partial" mode; if no panic branch was generated the function is total and is
	// translated again without the option wrapper
	var text string
	for pass := 0; pass < 2; pass++ {
		partial := pass == 0
		fn := &fnState{file: f, sc: &scopes{}, partial: partial}
		tr.cur = fn
		fn.sc.push()
		var params []string
		tg.paramTypes = nil
		tg.paramRef = nil
		tg.refOut = nil
		addParam := func(at ast.Node, name string, te ast.Expr) error {
			isRef := false
			if st, ok := te.(*ast.StarExpr); ok {
				// *A with A an array type: the body sees an array variable; if it writes through the
				// pointer the final value of the array is returned as an extra result (in/out parameter)
				te, isRef = st.X, true
			}
			t, err := tr.resolveType(f, te)
			if err != nil {
				return err
			}
			if _, isArr := t.(TArray); isRef && !isArr {
				return tr.errf(at, "pointer parameter to a non-array type %s", t)
			}
			tg.paramTypes = append(tg.paramTypes, t)
			tg.paramRef = append(tg.paramRef, isRef)
			if it, ok := t.(TIface); ok {
				if name == "_" {
					return nil
				}
				vi, err := tr.declare(at, name, t)
				if err != nil {
					return err
				}
				for _, m := range it.Methods {
					if m.Res == nil {
						continue
					}
					ct, err := coqType(m.Res)
					if err != nil {
						return tr.errf(at, "%v", err)
					}
					params = append(params, fmt.Sprintf("(%s_%s : %s)", vi.coq, m.Name, ct))
				}
				return nil
			}
			ct, err := coqType(t)
			if err != nil {
				return tr.errf(at, "%v", err)
			}
			vi, err := tr.declare(at, name, t)
			if err != nil {
				return err
			}
			if isRef {
				if name == "_" {
					return tr.errf(at, "unnamed pointer parameter")
				}
				vi.byRef = true
				if tr.mutatesRef(d.Body, name) {
					fn.refOut = append(fn.refOut, vi)
					tg.refOut = append(tg.refOut, len(tg.paramTypes)-1)
				}
			}
			params = append(params, fmt.Sprintf("(%s : %s)", vi.coq, ct))
			return nil
		}
		if d.Recv != nil {
			r := d.Recv.List[0]
			if _, ptr := recvTypeName(r.Type); ptr {
				return tr.errf(r, "pointer receiver")
			}
			name := "_"
			if len(r.Names) == 1 {
				name = r.Names[0].Name
			}
			if err := addParam(r, name, r.Type); err != nil {
				return err
			}
		}
		for _, p := range d.Type.Params.List {
			if _, variadic := p.Type.(*ast.Ellipsis); variadic {
				return tr.errf(p, "variadic parameter")
			}
			if len(p.Names) == 0 {
				if err := addParam(p, "_", p.Type); err != nil {
					return err
				}
			}
			for _, n := range p.Names {
				if err := addParam(n, n.Name, p.Type); err != nil {
					return err
				}
			}
		}
		if (d.Type.Results == nil || len(d.Type.Results.List) == 0) && len(fn.refOut) == 0 {
			return tr.errf(d, "function without results")
		}
		fn.results = nil
		var resList []*ast.Field
		if d.Type.Results != nil {
			resList = d.Type.Results.List
		}
		for _, r := range resList {
			if len(r.Names) != 0 {
				return tr.errf(r, "named results")
			}
			t, err := tr.resolveType(f, r.Type)
			if err != nil {
				return err
			}
			fn.results = append(fn.results, t)
		}
		all := append([]Type{}, fn.results...)
		all = append(all, typesOf(fn.refOut)...)
		if len(all) == 1 {
			fn.resType = all[0]
		} else {
			fn.resType = TTuple{Elems: all}
		}
		rt, err := coqType(fn.resType)
		if err != nil {
			return tr.errf(d, "%v", err)
		}
		tg.results, tg.resType = fn.results, fn.resType
		body, err := tr.block(d.Body.List, ctx{}, func() (string, error) {
			if len(fn.results) == 0 {
				// a function without Go results ends by falling off its body: its value is the final
				// state of the arrays it writes through pointer parameters
				return tr.ret(ctx{}, tuplePat(fn.refOut)), nil
			}
			return "", tr.errf(d, "control can reach the end of the function body (missing return)")
		})
		if err != nil {
			return err
		}
		if partial && !fn.panicked {
			continue // total: second pass
		}
		if partial {
			rt = "(option " + rt + ")"
		}
		tg.partial = partial
		ps := ""
		if len(params) > 0 {
			ps = " " + strings.Join(params, " ")
		}
		text = fmt.Sprintf("Definition %s%s : %s :=\n%s.\n", tg.spec.Gallina, ps, rt, indent(body))
		break
	}
	tg.text = text
	tg.done = true
	tr.order = append(tr.order, tg)
	return nil
}

func commentSafe(s string) string {
	s = strings.ReplaceAll(s, "(*", "( *")
	s = strings.ReplaceAll(s, "*)", "* )")
	if strings.Count(s, "\"")%2 != 0 || strings.Contains(s, "'\"'") || strings.Contains(s, "`") {
		s = strings.ReplaceAll(s, "\"", "''")
	}
	return s
}

func (tr *translator) render() string {
	var b strings.Builder
	b.WriteString("(* GENERATED by harness/go2coq from the Go sources named below -- do not edit.\n")
	b.WriteString("   Regenerated by bin/check for properties with \"gen_tie\": true; the lemmas of Proofs/Gen_equiv.v tie\n")
	b.WriteString("   every definition of this file to the hand-written model the property theorems are about. *)\n")
	b.WriteString("From Coq Require Import List ZArith Bool.\nImport ListNotations.\nFrom HV Require Import Gen.Prelude.\nLocal Open Scope Z_scope.\nLocal Open Scope bool_scope.\n\n")
	tr.errorsUsed["E_safemath_ErrOverflow"] = true
	tr.errorsUsed["E_safemath_ErrUnderflow"] = true
	var es []string
	for e := range tr.errorsUsed {
		es = append(es, e)
	}
	sort.Strings(es)
	b.WriteString("(* sentinel errors (package-level `var ErrX = errors.New(...)`) mentioned by the translated functions *)\n")
	b.WriteString("Inductive go_error : Set :=\n")
	for _, e := range es {
		b.WriteString("| " + e + "\n")
	}
	b.WriteString(".\n\n")
	for _, tg := range tr.order {
		d := tg.fd.decl
		start := tr.ld.fset.Position(d.Pos()).Offset
		end := tr.ld.fset.Position(d.End()).Offset
		src := string(tg.fd.file.src[start:end])
		kind := "total"
		if tg.partial {
			kind = "can panic: result is an option, None = run-time panic"
		}
		fmt.Fprintf(&b, "(* %s : %s   [%s]\n\n%s\n*)\n", tg.fd.file.path, tg.spec.Func, kind, commentSafe(src))
		b.WriteString(tg.text)
		b.WriteString("\n")
	}
	return b.String()
}
