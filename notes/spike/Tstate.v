(* Spike: executable model of state/tstate/tstate_view.go (with the F-1 fix in Remove). *)
From stdpp Require Import gmap list.
From Coq Require Import NArith.
Local Open Scope N_scope.

Definition key := N.            (* spike: key id; chunk suffix given by [kchunks] *)
Definition val := list N.
Definition kchunks (k : key) : N := 2.   (* spike *)
Definition num_chunks (v : val) : N := match v with [] => 0 | _ => N.of_nat (length v) / 64 + 1 end.

Definition perm := N.
Definition pRead : perm := 1. Definition pAlloc : perm := 3. Definition pWrite : perm := 5.
Definition perm_has (p req : perm) : bool := N.eqb (N.ldiff req p) 0.

Inductive opT := CreateOp | InsertOp | RemoveOp.
Record oprec := { ot : opT; ok_ : key; pastV : val; pastA : option N; pastW : option N }.

Record view := {
  base : gmap key val;                 (* parent / prefetched storage *)
  blk  : gmap key (option val);        (* TState.changedKeys *)
  scope : gmap key perm;
  pending : gmap key (option val);
  ops : list oprec;
  allocs : gmap key N;
  writes : gmap key N }.

Definition under (s : view) (k : key) : option val :=
  match blk s !! k with Some ov => ov | None => base s !! k end.
Definition vis (s : view) (k : key) : option val :=
  match pending s !! k with Some ov => ov | None => under s k end.

Inductive err := EPerm | EValue | ENotFound.
Definition check (s : view) (k : key) (p : perm) : bool :=
  perm_has (default 0 (scope s !! k)) p.

Definition get (s : view) (k : key) : val + err :=
  if check s k pRead then match vis s k with Some v => inl v | None => inr ENotFound end else inr EPerm.

Definition set_p (s : view) p o a w : view :=
  {| base := base s; blk := blk s; scope := scope s; pending := p; ops := o; allocs := a; writes := w |}.

Definition val_eqb (a b : val) : bool := bool_decide (a = b).
Definition oval_eqb (a b : option val) : bool := bool_decide (a = b).

Definition insert (s : view) (k : key) (v : val) : view * option err :=
  if negb (check s k pWrite) then (s, Some EPerm) else
  if negb (N.leb (num_chunks v) (kchunks k)) then (s, Some EValue) else
  let unchanged := oval_eqb (under s k) (Some v) in
  match vis s k with
  | Some past =>
      if val_eqb past v then (s, None) else
      let o := {| ot := InsertOp; ok_ := k; pastV := past; pastA := allocs s !! k; pastW := writes s !! k |} in
      let w := <[k := num_chunks v]> (writes s) in
      let p := <[k := Some v]> (pending s) in
      if unchanged then (set_p s (delete k p) (ops s ++ [o]) (delete k (allocs s)) (delete k w), None)
      else (set_p s p (ops s ++ [o]) (allocs s) w, None)
  | None =>
      if negb (check s k pAlloc) then (s, Some EPerm) else
      let o := {| ot := CreateOp; ok_ := k; pastV := []; pastA := allocs s !! k; pastW := writes s !! k |} in
      let a := <[k := kchunks k]> (allocs s) in
      let w := <[k := num_chunks v]> (writes s) in
      let p := <[k := Some v]> (pending s) in
      if unchanged then (set_p s (delete k p) (ops s ++ [o]) (delete k a) (delete k w), None)
      else (set_p s p (ops s ++ [o]) a w, None)
  end.

Definition remove (s : view) (k : key) : view * option err :=
  if negb (check s k pWrite) then (s, Some EPerm) else
  match vis s k with
  | None => (s, None)
  | Some past =>
      let unchanged := oval_eqb (under s k) None in
      let o := {| ot := RemoveOp; ok_ := k; pastV := past; pastA := allocs s !! k; pastW := writes s !! k |} in
      let a := delete k (allocs s) in
      let w := <[k := 0]> (writes s) in
      let p := <[k := None]> (pending s) in
      if unchanged then (set_p s (delete k p) (ops s ++ [o]) a (delete k w), None)
      else (set_p s p (ops s ++ [o]) a w, None)
  end.

Definition undo (s : view) (o : oprec) : view :=
  let k := ok_ o in
  match ot o with
  | CreateOp =>
      let a := delete k (allocs s) in
      match pastW o with
      | Some pw => set_p s (<[k := None]> (pending s)) (ops s) a (<[k := pw]> (writes s))
      | None => set_p s (delete k (pending s)) (ops s) a (delete k (writes s))
      end
  | InsertOp =>
      match pastW o with
      | Some pw => set_p s (<[k := Some (pastV o)]> (pending s)) (ops s) (allocs s) (<[k := pw]> (writes s))
      | None => set_p s (delete k (pending s)) (ops s) (allocs s) (delete k (writes s))
      end
  | RemoveOp =>
      let a := match pastA o with Some pa => <[k := pa]> (allocs s) | None => allocs s end in
      match pastW o with
      | Some pw => set_p s (<[k := Some (pastV o)]> (pending s)) (ops s) a (<[k := pw]> (writes s))
      | None => set_p s (delete k (pending s)) (ops s) a (delete k (writes s))
      end
  end.

Definition rollback (s : view) (n : nat) : view :=
  let keep := take n (ops s) in
  let drop_ := rev (drop n (ops s)) in
  let s' := fold_left undo drop_ s in
  set_p s' (pending s') keep (allocs s') (writes s').

Definition commit (s : view) : gmap key (option val) := pending s ∪ blk s.

(* ---------- abstract spec: map + snapshots ---------- *)
Inductive hop := HGet (k : key) | HIns (k : key) (v : val) | HRem (k : key) | HRb (i : nat).

Definition step (s : view) (h : hop) : view :=
  match h with
  | HGet _ => s
  | HIns k v => fst (insert s k v)
  | HRem k => fst (remove s k)
  | HRb i => rollback s (min i (length (ops s)))
  end.

(* property checks on one history *)
Definition keysU : list key := [1; 2].
Definition vis_list (s : view) : list (option val) := map (vis s) keysU.

(* spec state: visible map as list over keysU; ops succeed iff impl succeeds (perm full in spike) *)
Fixpoint run_check (s : view) (snaps : list (nat * gmap key (option val))) (hs : list hop) : bool :=
  match hs with
  | [] => true
  | h :: hs' =>
      let s' := step s h in
      let ok :=
        match h with
        | HGet k => true
        | HIns k v => match snd (insert s k v) with
                      | None => oval_eqb (vis s' k) (Some v) && forallb (fun k' => (N.eqb k k') || oval_eqb (vis s' k') (vis s k')) keysU
                      | Some _ => bool_decide (vis_list s' = vis_list s) end
        | HRem k => oval_eqb (vis s' k) None && forallb (fun k' => (N.eqb k k') || oval_eqb (vis s' k') (vis s k')) keysU
        | HRb i => match list_find (fun sn => bool_decide (fst sn = min i (length (ops s)))) (rev snaps) with
                   | Some (_, (_, p)) => bool_decide (pending s' = p) && bool_decide (length (ops s') = min i (length (ops s)))
                   | None => true end
        end in
      (* commit-minimality invariant *)
      let inv := forallb (fun k => match pending s' !! k with Some ov => negb (oval_eqb ov (under s' k)) | None => true end) keysU in
      (* dom writes = dom pending *)
      let inv2 := forallb (fun k => bool_decide (is_Some (pending s' !! k) <-> is_Some (writes s' !! k))) keysU in
      (* snapshot: record pending at each distinct op index (latest state with that op count) *)
      let snaps' := match h with HRb i => filter (fun sn => bool_decide (fst sn <= min i (length (ops s)))%nat) snaps | _ => snaps end in
      let snaps'' := snaps' ++ [(length (ops s'), pending s')] in
      ok && inv && inv2 && run_check s' snaps'' hs'
  end.
