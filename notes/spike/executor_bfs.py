#!/usr/bin/env python3
"""Design-validation spike (not a proof, not framework code): exhaustive interleaving exploration of
the lock-region LTS of internal/executor for tiny instances, to check that C08's statements are true
of the algorithm at the chosen label granularity."""
import itertools, sys
from collections import deque

MAXD = 1000
R, W = 'R', 'W'

def conflict(ti, tj):
    for k in ti:
        if k in tj and (ti[k] != R or tj[k] != R):
            return True
    return False

def explore(tasks, workers):
    n = len(tasks)
    # task record: (deps, blocked, readers, reading, executed, phase)
    # phase: 'none','reg'(being registered/registered, not queued),'queued','running','fdone','done'
    def mk():
        return (0, frozenset(), frozenset(), frozenset(), False, 'none')
    init = (tuple(mk() for _ in range(n)), frozenset(), None, 0, ())  # tasks, nodes(items), cursor, next, queue
    seen = {init}
    dq = deque([init])
    ended = [set() for _ in range(n)]
    viol = None
    dead = None
    states = 0
    def upd(ts, i, **kw):
        d, b, rd, rg, ex, ph = ts[i]
        rec = dict(deps=d, blocked=b, readers=rd, reading=rg, executed=ex, phase=ph)
        rec.update(kw)
        l = list(ts)
        l[i] = (rec['deps'], rec['blocked'], rec['readers'], rec['reading'], rec['executed'], rec['phase'])
        return tuple(l)
    while dq:
        st = dq.popleft(); states += 1
        ts, nodes, cur, nxt, queue = st
        nd = dict(nodes)
        succ = []
        # --- main thread: Run ---
        if cur is None:
            if nxt < n:
                t = nxt
                ts2 = upd(ts, t, deps=MAXD, phase='reg')
                succ.append((ts2, nodes, (t, frozenset(tasks[t].keys()), frozenset()), nxt + 1, queue))
        else:
            t, rem, deps = cur
            if rem:
                for k in rem:   # map iteration order is arbitrary
                    v = tasks[t][k]
                    ts2 = ts; nd2 = dict(nd); deps2 = set(deps)
                    if k in nd2:
                        lt = nd2[k]
                        if v == R:
                            ts2 = upd(ts2, t, reading=ts2[t][3] | {lt})
                            ts2 = upd(ts2, lt, readers=ts2[lt][2] | {t})
                        else:
                            for rt in ts2[lt][2]:
                                if rt == t: continue
                                assert ts2[rt][5] != 'done', "write to nil blocked map (panic)"
                                ts2 = upd(ts2, rt, blocked=ts2[rt][1] | {t})
                                deps2.add(rt)
                            nd2[k] = t
                        if not ts2[lt][4]:
                            ts2 = upd(ts2, lt, blocked=ts2[lt][1] | {t})
                            deps2.add(lt)
                    else:
                        nd2[k] = t
                    succ.append((ts2, frozenset(nd2.items()), (t, rem - {k}, frozenset(deps2)), nxt, queue))
            else:
                diff = MAXD - len(deps)
                newd = ts[t][0] - diff
                ts2 = upd(ts, t, deps=newd)
                if newd > 0:
                    succ.append((ts2, nodes, None, nxt, queue))
                else:
                    ts2 = upd(ts2, t, phase='queued')
                    succ.append((ts2, nodes, None, nxt, queue + (t,)))
        # --- workers ---
        running = sum(1 for x in ts if x[5] in ('running', 'fdone'))
        if queue and running < workers:
            t = queue[0]
            # FBegin: check order property
            for i in range(t):
                if conflict(tasks[i], tasks[t]) and ts[i][5] not in ('fdone', 'done'):
                    return ('ORDER', tasks, i, t, st), states
            succ.append((upd(ts, t, phase='running'), nodes, cur, nxt, queue[1:]))
        for t in range(n):
            d, b, rd, rg, ex, ph = ts[t]
            if ph == 'running':
                succ.append((upd(ts, t, phase='fdone'), nodes, cur, nxt, queue))
            elif ph == 'fdone':
                if rg:
                    for r in rg:  # Unread under r.l  (Run's RunKey holds lt.l atomically, so no conflict in this LTS)
                        ts2 = upd(ts, r, readers=ts[r][2] - {t})
                        ts2 = upd(ts2, t, reading=rg - {r})
                        succ.append((ts2, nodes, cur, nxt, queue))
                else:
                    ts2 = ts; q2 = queue
                    for bt in b:
                        nd_ = ts2[bt][0] - 1
                        ts2 = upd(ts2, bt, deps=nd_)
                        if nd_ > 0: continue
                        assert ts2[bt][5] == 'reg', ("double enqueue", bt, ts2[bt])
                        ts2 = upd(ts2, bt, phase='queued')
                        q2 = q2 + (bt,)
                    ts2 = upd(ts2, t, blocked=frozenset(), executed=True, phase='done')
                    succ.append((ts2, nodes, cur, nxt, q2))
        if not succ:
            if not all(x[5] == 'done' for x in ts):
                return ('DEADLOCK', tasks, st), states
        for s2 in succ:
            if s2 not in seen:
                seen.add(s2); dq.append(s2)
    return None, states

def main():
    keys = ['a', 'b']
    opts = []
    for pa in (None, R, W):
        for pb in (None, R, W):
            d = {}
            if pa: d['a'] = pa
            if pb: d['b'] = pb
            if d: opts.append(d)
    total = 0; sets = 0
    nt = int(sys.argv[1]) if len(sys.argv) > 1 else 3
    wk = int(sys.argv[2]) if len(sys.argv) > 2 else 2
    for combo in itertools.product(opts, repeat=nt):
        res, states = explore(list(combo), wk)
        total += states; sets += 1
        if res:
            print("VIOLATION", res); return 1
    print(f"ok: {sets} task sets, {total} states, tasks={nt} workers={wk}")
    return 0
sys.exit(main())
