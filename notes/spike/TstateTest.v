From stdpp Require Import gmap list.
From Coq Require Import NArith.
Require Import Tstate.
Local Open Scope N_scope.

Definition alphabet : list hop :=
  [HIns 1 [7]; HIns 1 [9]; HIns 2 [7]; HIns 2 [9]; HRem 1; HRem 2; HRb 0; HRb 1; HRb 2; HRb 3].

Fixpoint hists (n : nat) : list (list hop) :=
  match n with
  | O => [[]]
  | S n' => [] :: flat_map (fun h => map (cons h) (hists n')) alphabet
  end.

Definition full : gmap key perm := {[ 1 := 7; 2 := 7 ]}.
Definition mk (b : gmap key val) (bl : gmap key (option val)) : view :=
  {| base := b; blk := bl; scope := full; pending := ∅; ops := []; allocs := ∅; writes := ∅ |}.

Definition inits : list view :=
  [ mk {[ 1 := [7] ]} ∅;
    mk {[ 1 := [7] ]} {[ 2 := Some [9] ]};
    mk {[ 1 := [7]; 2 := [9] ]} {[ 2 := None ]};
    mk ∅ {[ 1 := Some [9] ]} ].

Definition all_ok (n : nat) : bool :=
  forallb (fun s0 => forallb (fun h => run_check s0 [(O, ∅)] h) (hists n)) inits.

Definition count (n : nat) := length (hists n).
Time Eval vm_compute in (count 5, all_ok 5).

(* the pinned-tree witness must be OK in the fixed model *)
Eval vm_compute in
  let s := fold_left step [HRem 1; HIns 1 [9]; HRem 1] (mk {[ 1 := [7] ]} ∅) in (vis s 1, pending s !! 1).
